#!/usr/bin/env python3
"""Regenerates section 12.4 of DESIGN.md (between the markers) from seeded/*/meta.json."""
import json, glob, os, re
rows=[]
for mp in sorted(glob.glob('/verif/seeded/*/meta.json')):
    m=json.load(open(mp))
    det=m.get('checks_run') or {}
    if not det and 'detected' in m: det=m['detected']
    dets='; '.join(f"{k}: {v}" for k,v in det.items()) if isinstance(det,dict) else str(det)
    conf=m.get('confirmed',{})
    suite=conf.get('suite_with_change','')
    suite='3514/3514' if '3514 passed; 0 failed' in suite else (m.get('suite_status','') or suite[:30])
    rp=os.path.join(os.path.dirname(mp),'result.json')
    cur=''
    if os.path.exists(rp):
        r=json.load(open(rp)); cur=f"{r['check']} exit {r['exit_code']}"
    rows.append((m['id'], m.get('breaks_property',''), m.get('needs_to_manifest','').replace('|','/'), dets.replace('|','/'), suite, cur))
out=["<!-- SEED-TABLE-BEGIN -->","### 12.4 Which checks catch which changes","",
"`tools/seedrun.sh <patch> <check>...` applies a change to /repo, runs the quick tier of the named checks and reverts; `rc=1` means exit 1 with a VIOLATION line and a replay file. The suite column is `cargo test --lib --offline` with the change applied in a scratch worktree (`tools/confirm_seed.sh`).","",
"| change | breaks | needs, to manifest | checks run on it (history) | suite with change | latest full matrix (quick tier) |","|---|---|---|---|---|---|"]
for r in rows:
    out.append("| "+" | ".join(r)+" |")
out.append("<!-- SEED-TABLE-END -->")
p='/verif/DESIGN.md'
s=open(p).read()
blk="\n".join(out)
if "<!-- SEED-TABLE-BEGIN -->" in s:
    s=re.sub(r"<!-- SEED-TABLE-BEGIN -->.*<!-- SEED-TABLE-END -->", lambda _: blk, s, flags=re.S)
else:
    s=s.rstrip("\n")+"\n\n"+blk+"\n"
open(p,'w').write(s)
print(len(rows),"rows")
