#!/usr/bin/env python3
"""Regenerates /verif/MANIFEST.json from the table below (kept valid at all times)."""
import json, sys, os

HOOK_COMMITS = ["0aadbb0", "f520fb1", "ca8b442"]

# id -> (engine, technique, level text, level note, design ref)
CHECKS = {
 "C01": ("E-HIST", "explicit-state model checking (stateright BFS to closure) with the real mutating methods as transition function, state = (real digraph, reference (V,A,w))",
         "The reachable state graph of each model is closed: every reachable state x every action of the alphabet (all ordered pairs over V + two ids outside, self-loops, weights {1,2}) is executed on the real code and compared with the reference after every step (panic iff rejected and then unchanged, remove_arc's answer, full observation, has_arc on all id pairs, == against a fresh build). A closed search decides the property for histories of every length at that order and alphabet.",
         "Trusted: apply_abs in hist.rs (the plain-set semantics), stateright's BFS. Orders <=3 (4 thorough) with full alphabet; larger orders only through AdjacencyMatrix word-boundary windows.",
         "DESIGN.md 3.3, 5 C01"),
 "C20": ("E-HIST", "explicit-state closure (stateright) of construction histories, then an all-pairs pass over the closed state set for ==, cmp, Hash, Clone",
         "Same closures as C01 (initial states also include every generator, operator and From conversion). On the closed set: one internal value per abstract digraph whatever history reached it; for every ordered pair of states == iff same (V,A,w), cmp/partial_cmp consistent and antisymmetric, equal => equal hash; every transition is applied to a clone with the original compared before/after; is_complete() on every state.",
         "Trusted: Debug rendering exposes all internal fields; DefaultHasher stands for 'hashing'.",
         "DESIGN.md 5 C20"),
 "C17": ("E-CONF+E-SCHED", "exhaustive sweep of the available_parallelism seam (Err, 1..16/33) x inputs; taskset conformance of the seam; exhaustive preemption-bounded schedule exploration (own DFS scheduler on shuttle)",
         "Configurations: six deterministic threaded routines x every answer of available_parallelism in {Err,1..=16(33),...} x every pair of digraphs of order <=3 and structured families at orders 1..33(70); AdjacencyMap::union over every pair of key sets; seeded generators valid+repeatable per configuration. The seam is bound to reality: a thread-count-sensitive battery under taskset -c 0-(k-1) must equal the seam set to k. Schedules: all eight routines, every schedule with <=2 (3) preemptions, 2 (2-3) workers, single outcome = reference.",
         "Trusted: shuttle's runtime (atomics as SeqCst); raw-pointer writes are not scheduling points (Miri race detector in C13 covers them).",
         "DESIGN.md 3.5, 3.6, 5 C17"),
 "C02": ("E-ENUM", "bounded-exhaustive enumeration of all digraphs of order <= 4/5 x every query, executed on the real code against a set-based reference model",
         "Every digraph on 0..n (n<=4 quick, n<=5 thorough) in all five representations, every AdjacencyMap vertex set over small id pools (non-contiguous), and structured families at orders 8..65, with every query of the property compared with its set definition; nothing sampled. Decides the property for all inputs inside those bounds.",
         "Trusted: the reference definitions in engine/gv/src/refm.rs, rustc, the shadow manifest building /repo/src. Orders > 5 only through families; weights fixed to 1 here.",
         "DESIGN.md 5 C02"),
 "C03": ("E-ENUM", "bounded-exhaustive enumeration of all weighted digraphs (order<=4, small weight alphabets) x all source sets, real Dijkstra vs reference relaxation",
         "Every AdjacencyListWeighted<usize> digraph of order <=3 over weights {0,1,2,5} and order 4 over {1,3} (3^12) / {0,1,3}, every subset of sources in both orders; item streams and distances() judged against reference distances. Decides C03 inside those bounds; ties accepted in any order.",
         "Trusted: array-based reference (|V|-1 rounds of relaxation in i128). Weights outside the alphabets and orders > 5 not explored.",
         "DESIGN.md 5 C03"),
 "C04": ("E-ENUM", "bounded-exhaustive enumeration of all digraphs of order <= 4/5 x all source subsets x 5 representations, real BFS vs frontier-iteration levels",
         "Every digraph on 0..n (n<=4; 5 thorough) x every source subset (empty included, both orders) x five representations; Bfs/BfsDist streams and distances() against hop levels from frontier iteration.",
         "Trusted: reference levels over the arc set. Orders > 5 not explored.",
         "DESIGN.md 5 C04"),
 "C05": ("E-ENUM", "bounded-exhaustive enumeration of digraphs x source sets x ALL target predicates (2^n subsets), real BfsPred/DijkstraPred vs reference distances",
         "BFS: every digraph of order <=4 (5 with few sources) x 5 reps x every source subset x every target predicate; Dijkstra: every weighted digraph of order <=3 over {0,1,2,5}, order 4 over {1,3}. Tree arcs, None-iff-unreachable, path validity and optimality (any optimal path accepted), cycles() soundness.",
         "Trusted: reference distances. cycles(): soundness only, as the property states.",
         "DESIGN.md 5 C05"),
 "C06": ("E-ENUM", "bounded-exhaustive enumeration of digraphs x every ORDERED arrangement of every source subset, real DFS streams fed to a depth-first-preorder validator",
         "Every digraph on 0..n (n<=4; 5 with <=1-2 sources) x every ordered arrangement of every source subset x five representations; Dfs/DfsDist/DfsPred streams validated by a search-path validator that accepts any valid depth-first preorder, plus reachable-set equality and predecessors() = forest. The one recorded finding (D2) is matched by an exact semantic classifier; every other deviation is a VIOLATION.",
         "Trusted: the validator (refm.rs DfsValidator). The known-finding classifier predicts the defective output exactly (lazy-stack preorder cut at first stale pop).",
         "DESIGN.md 5 C06, 6.3"),
 "C07": ("E-ENUM", "bounded-exhaustive enumeration of all isize-weighted digraphs (order<=4, alphabets with negatives) x every source, real Bellman-Ford-Moore vs reference + simple-cycle enumeration",
         "Every AdjacencyListWeighted<isize> digraph of order <=3 over {-2,-1,0,1,2}, order 4 over {-1,2} (thorough: {-1,0,2}, {-2,-1,1,3}) x every source: None iff a negative circuit is reachable (either answer accepted when only an unreachable one exists), Some exact, agreement with Dijkstra on non-negative inputs, idempotent second call. All arc-count residues mod 4 counted.",
         "Trusted: reference distances and exhaustive simple-cycle enumeration.",
         "DESIGN.md 5 C07"),
 "C08": ("E-ENUM", "bounded-exhaustive enumeration of the C07 spaces filtered to no negative circuit, real Floyd-Warshall matrix vs per-source reference, BFM and Dijkstra rows",
         "All pairs of every negative-circuit-free digraph of the C07 spaces: exact entries, zero diagonal, isize::MAX iff unreachable, row s = BellmanFordMoore(s), = Dijkstra(s) on non-negative weights.",
         "Trusted: reference distances; inputs with a negative circuit are outside the property.",
         "DESIGN.md 5 C08"),
 "C09": ("E-ENUM", "bounded-exhaustive enumeration of digraphs (5 reps, order<=4/5) and non-contiguous AdjacencyMap id pools, real Tarjan vs mutual-reachability classes",
         "Tarjan::components() as a set of sets equals the classes of mutual reachability and is a partition, for every digraph of order <=4 (5) in five representations and every AdjacencyMap over vertex sets of the pools {0,2,3,7,9} and {1,4,6}.",
         "Trusted: per-vertex reachability sets.",
         "DESIGN.md 5 C09"),
 "C10": ("E-ENUM", "bounded-exhaustive enumeration of all AdjacencyMap digraphs of order <= 5, real Johnson75 vs exhaustive simple-path circuit enumeration (multiset equality)",
         "Every contiguous AdjacencyMap digraph of order <=4 and order 5 (<=12 arcs quick, all 2^20 thorough): circuits() equals the multiset of elementary circuits from exhaustive simple-path extension, each written from its smallest vertex.",
         "Trusted: the reference circuit enumeration. Order <= 5.",
         "DESIGN.md 5 C10"),
 "C11": ("E-ENUM+E-CONF", "bounded-exhaustive enumeration of digraphs and ordered PAIRS/TRIPLES of digraphs x every worker count, real operators vs set definitions",
         "complement/converse/union/filter_vertices against set definitions: every digraph of order <=4 (5), every ordered pair up to orders (3,3),(4,2) ((4,4) thorough), every triple of orders <=3 (associativity), AdjacencyMap over non-contiguous id pools with every predicate, weighted converse; AdjacencyList/AdjacencyMap threaded variants for every worker count 1..=4..8 through the available_parallelism seam.",
         "Trusted: set definitions in refm.rs; worker count set through the cfg(graaf_verif) seam (bound to real affinity in C17).",
         "DESIGN.md 5 C11"),
 "C12": ("E-ENUM+E-CONF+E-SCHED", "bounded-exhaustive enumeration of digraphs / pairs / near-miss families x every worker count, plus exhaustive preemption-bounded schedules of is_semicomplete",
         "Eight unary predicates on every digraph of order <=4 (5) x 5 reps, AdjacencyMap over non-contiguous pools, near-miss families for EVERY pair position at orders 5..33 x worker counts 1..16; three binary relations over every ordered pair up to (3,3),(4,2) ((4,4) thorough).",
         "Trusted: set definitions. shuttle treats the Relaxed flag as SeqCst (monotone-flag argument in DESIGN.md).",
         "DESIGN.md 5 C12"),
 "C13": ("E-MEM", "exhaustive enumeration of short API programs (every entry point x every small digraph x in/out-of-domain arguments), each executed under Miri, valgrind memcheck, a debug-assertion build and a counting allocator",
         "Every program `build G; call E(args) [; call E2]` of the catalogue (23 377 programs quick, 164 286 thorough): the debug-assertion build must return or panic (never abort/signal), the heap must not grow between 3 and 6 repetitions, valgrind memcheck must stay silent, and Miri (UB + data-race detector, threaded routines with 1-3 workers) must accept the program (quick: the 1 842 programs of the raw-pointer groups of the mini catalogue; thorough: catalogue level 1). Canaries prove on every run that each observer flags wrong code.",
         "Trusted: Miri, valgrind, the allocator shim. Programs <= 2 calls, orders <= 3; Miri explores one schedule per program and loses precision across usize pointer casts.",
         "DESIGN.md 3.7, 5 C13"),
 "C14": ("E-ENUM+E-CONF", "exhaustive sweep of generator parameters (orders 0..130, (m,n) grid) x 4 representations x worker counts, real generators vs closed-form arc sets",
         "Seven order-parameterised generators at every order 0..=40, 63..=66, 127..=130 (0..=130 thorough) in four representations vs closed forms and vs each other; AdjacencyList::complete for every n<=34 (70) x every worker count 1..=17 (33) and Err; biclique grid incl. zeros; inadmissible parameters panic.",
         "Trusted: closed forms in gens.rs. Orders > 130 not explored.",
         "DESIGN.md 5 C14"),
 "C15": ("E-ENUM+E-CONF+E-SCHED", "exhaustive sweep of a (order, seed, p, representation, worker count) grid, each call made twice; exhaustive preemption-bounded schedules of the threaded generators",
         "Validity (tournament / recursive tree / simple digraph), p=0/p=1 extremes, invalid p and order 0 panic, equal arguments => equal results, next_f64 in [0,1) — on every point of the enumerated grid. 'All u64 seeds' is decided only on the enumerated seeds (stated limit).",
         "Trusted: validity definitions. Seeds enumerated, not all 2^64.",
         "DESIGN.md 5 C15"),
 "C16": ("E-ENUM", "bounded-exhaustive enumeration of digraphs x all 20 conversions + round trips, and of ALL row vectors / arc sequences (valid and invalid) up to a length",
         "Every digraph of order <=4 (5) through 12+8 conversions, round trips and a 4-chain; every vector of <=3 rows over subsets of 0..4 and every sequence of <=3 arcs over {0..4}^2 incl. self-loops, out-of-range heads, duplicates, empty input: same (V,A,w) or the documented panic.",
         "Trusted: Abs equality. EdgeList::from(empty) documented as no-panic.",
         "DESIGN.md 5 C16"),
 "C18": ("E-ENUM", "bounded-exhaustive enumeration of all matrices of order <= 3/4 over small alphabets (usize, isize, finite infinity)",
         "Every DistanceMatrix of order <=3 over {0,1,2,inf} / {-1,0,2,inf} / {0,3,9}, order 4 over 3 letters (thorough), plus pairwise-distinct matrices for addressing: eccentricities, diameter, center, periphery, is_connected, Index/IndexMut, new().",
         "Trusted: row-maximum definitions.",
         "DESIGN.md 5 C18"),
 "C19": ("E-ENUM", "bounded-exhaustive enumeration of all predecessor vectors of length <= 6/7 x start x target/predicate, with a per-case non-termination watchdog",
         "Every predecessor vector of length <=6 (7) over {None, 0..n}, every start, every target vertex, every subset predicate (n<=5) and two predicates over the predecessor argument, against a link-following reference; a stalled case is reported as non-termination.",
         "Trusted: reference link-following with a visited set; watchdog threshold 60 s.",
         "DESIGN.md 5 C19"),
}

PENDING = {}

def main():
    props = [json.loads(l) for l in open('/verif/properties.jsonl')]
    checks = []
    na = []
    for p in props:
        i = p['id']
        if i in CHECKS:
            eng, tech, text, note, ref = CHECKS[i]
            checks.append({
                "property_id": i,
                "quick_cmd": f"./check {i} quick",
                "thorough_cmd": f"./check {i} thorough",
                "evidence_file": f"/verif/evidence/{i}.json",
                "replay_cmd_template": f"./check {i} --replay {{path}}",
                "engine": eng,
                "level_claimed": {"category": "model_checking", "text": text, "design_ref": ref},
                "level_note": note,
                "technique": tech,
            })
        else:
            na.append({"property_id": i, "reason": PENDING.get(i, "check not built yet in this round (planned: see DESIGN.md section 5); not claimed until its engine exists and passes on the unchanged tree")})
    m = {
        "version": 1,
        "setup_cmd": "./check --build",
        "hooks": {
            "guard": "--cfg graaf_verif",
            "enable": "engine/.cargo/config.toml sets RUSTFLAGS=--cfg graaf_verif; engine/shadow/graaf/Cargo.toml builds /repo/src/lib.rs as package graaf (feature `sched` routes the hooked primitives to shuttle)",
            "baseline_off_cmd": "cd /repo && (cargo nextest run --workspace --no-fail-fast --offline || cargo test --workspace --no-fail-fast --offline)",
            "source_commits": HOOK_COMMITS,
            "add_only": True,
        },
        "engines": [
            {"name": "E-ENUM", "path": "engine/gv/src/core.rs", "serves_properties": sorted(k for k,v in CHECKS.items() if 'E-ENUM' in v[0]), "kind_free_text": "bounded-exhaustive input/program enumeration of the real code against a reference model, 16 workers, crash/stall attribution per case"},
            {"name": "E-HIST", "path": "engine/gv/src/props/c01.rs", "serves_properties": sorted(k for k,v in CHECKS.items() if 'E-HIST' in v[0]), "kind_free_text": "stateright explicit-state closure of mutation histories with the real methods as transition function"},
            {"name": "E-SCHED", "path": "engine/gv/src/sched.rs", "serves_properties": sorted(k for k,v in CHECKS.items() if 'E-SCHED' in v[0]), "kind_free_text": "shuttle runtime under our own preemption-bounded depth-first scheduler (iterative context bounding)"},
            {"name": "E-CONF", "path": "engine/gv/src/props/c17.rs", "serves_properties": sorted(k for k,v in CHECKS.items() if 'E-CONF' in v[0]), "kind_free_text": "exhaustive sweep of the available_parallelism seam, bound to reality with taskset"},
            {"name": "E-MEM", "path": "engine/memprobe", "serves_properties": sorted(k for k,v in CHECKS.items() if 'E-MEM' in v[0]), "kind_free_text": "program enumeration under Miri and a counting allocator"},
        ],
        "checks": checks,
        "not_applicable": na,
        "notes": "All checks are bounded-exhaustive executions of the real code (model checking family). See DESIGN.md.",
    }
    json.dump(m, open('/verif/MANIFEST.json', 'w'), indent=1)
    print(f"claimed {len(checks)}, not claimed {len(na)}")

main()
