#!/usr/bin/env python3
"""Regenerates /verif/MANIFEST.json from the table below (kept valid at all times)."""
import json, sys, os

HOOK_COMMITS = ["0aadbb0"]

# id -> (engine, technique, level text, level note, design ref)
CHECKS = {
 "C02": ("E-ENUM", "bounded-exhaustive enumeration of all digraphs of order <= 4/5 x every query, executed on the real code against a set-based reference model",
         "Every digraph on 0..n (n<=4 quick, n<=5 thorough) in all five representations, every AdjacencyMap vertex set over small id pools (non-contiguous), and structured families at orders 8..65, with every query of the property compared with its set definition; nothing sampled. Decides the property for all inputs inside those bounds.",
         "Trusted: the reference definitions in engine/gv/src/refm.rs, rustc, the shadow manifest building /repo/src. Orders > 5 only through families; weights fixed to 1 here.",
         "DESIGN.md 5 C02"),
}

PENDING = {}

def main():
    props = [json.loads(l) for l in open('/verif/properties.jsonl')]
    checks = []
    na = []
    for p in props:
        i = p['id']
        if i in CHECKS:
            eng, tech, text, note, ref = CHECKS[i]
            checks.append({
                "property_id": i,
                "quick_cmd": f"./check {i} quick",
                "thorough_cmd": f"./check {i} thorough",
                "evidence_file": f"/verif/evidence/{i}.json",
                "replay_cmd_template": f"./check {i} --replay {{path}}",
                "engine": eng,
                "level_claimed": {"category": "model_checking", "text": text, "design_ref": ref},
                "level_note": note,
                "technique": tech,
            })
        else:
            na.append({"property_id": i, "reason": PENDING.get(i, "check not built yet in this round (planned: see DESIGN.md section 5); not claimed until its engine exists and passes on the unchanged tree")})
    m = {
        "version": 1,
        "setup_cmd": "./check --build",
        "hooks": {
            "guard": "--cfg graaf_verif",
            "enable": "engine/.cargo/config.toml sets RUSTFLAGS=--cfg graaf_verif; engine/shadow/graaf/Cargo.toml builds /repo/src/lib.rs as package graaf (feature `sched` routes the hooked primitives to shuttle)",
            "baseline_off_cmd": "cd /repo && (cargo nextest run --workspace --no-fail-fast --offline || cargo test --workspace --no-fail-fast --offline)",
            "source_commits": HOOK_COMMITS,
            "add_only": True,
        },
        "engines": [
            {"name": "E-ENUM", "path": "engine/gv/src/core.rs", "serves_properties": sorted(k for k,v in CHECKS.items() if 'E-ENUM' in v[0]), "kind_free_text": "bounded-exhaustive input/program enumeration of the real code against a reference model, 16 workers, crash/stall attribution per case"},
            {"name": "E-HIST", "path": "engine/gv/src/props/c01.rs", "serves_properties": sorted(k for k,v in CHECKS.items() if 'E-HIST' in v[0]), "kind_free_text": "stateright explicit-state closure of mutation histories with the real methods as transition function"},
            {"name": "E-SCHED", "path": "engine/gv/src/sched.rs", "serves_properties": sorted(k for k,v in CHECKS.items() if 'E-SCHED' in v[0]), "kind_free_text": "shuttle runtime under our own preemption-bounded depth-first scheduler (iterative context bounding)"},
            {"name": "E-CONF", "path": "engine/gv/src/props/c17.rs", "serves_properties": sorted(k for k,v in CHECKS.items() if 'E-CONF' in v[0]), "kind_free_text": "exhaustive sweep of the available_parallelism seam, bound to reality with taskset"},
            {"name": "E-MEM", "path": "engine/memprobe", "serves_properties": sorted(k for k,v in CHECKS.items() if 'E-MEM' in v[0]), "kind_free_text": "program enumeration under Miri and a counting allocator"},
        ],
        "checks": checks,
        "not_applicable": na,
        "notes": "All checks are bounded-exhaustive executions of the real code (model checking family). See DESIGN.md.",
    }
    json.dump(m, open('/verif/MANIFEST.json', 'w'), indent=1)
    print(f"claimed {len(checks)}, not claimed {len(na)}")

main()
