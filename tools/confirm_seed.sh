#!/bin/bash
# tools/confirm_seed.sh <seeded/dir>...  In a scratch worktree of /repo (outside /repo and /verif):
# apply patch.diff, run the unedited library test suite, run demo.rs (if present) with and
# without the change. Appends the outcome to <dir>/confirm.txt. Removes nothing from /verif.
set -u
W=/tmp/confirm_wt
if [ ! -d "$W" ]; then git -C /repo worktree add -q --detach "$W" HEAD || exit 2; mkdir -p $W/target/debug; cp -r /repo/target/debug/deps /repo/target/debug/build /repo/target/debug/.fingerprint $W/target/debug/ 2>/dev/null; fi
ARGS=(); for a in "$@"; do ARGS+=("$(readlink -f "$a")"); done
for D in "${ARGS[@]}"; do
  OUT="$D/confirm.txt"; : > "$OUT"
  cd "$W" && git checkout -q -- . && git clean -fdq tests 2>/dev/null
  git checkout -q --detach "$(git -C /repo rev-parse HEAD)" 2>/dev/null
  echo "base commit: $(git rev-parse --short HEAD)" >> "$OUT"
  if [ -f "$D/demo.rs" ]; then
    mkdir -p tests && cp "$D/demo.rs" tests/seed_demo.rs
    r=$( (ulimit -v 8000000; timeout -k 5 600 cargo test --offline --test seed_demo 2>&1) | grep -E '^test result|error(\[|:)' | head -3 | tr '\n' ' ')
    echo "demo WITHOUT the change: $r" >> "$OUT"
  fi
  git apply "$D/patch.diff" || { echo "patch does not apply" >> "$OUT"; continue; }
  b=$(cargo build --offline 2>&1 | tail -1); echo "build with the change: $b" >> "$OUT"
  if [ -f "$D/demo.rs" ]; then
    r=$( (ulimit -v 8000000; timeout -k 5 600 cargo test --offline --test seed_demo 2>&1) | grep -E '^test result|error(\[|:)' | head -3 | tr '\n' ' ')
    echo "demo WITH the change: $r" >> "$OUT"
    rm -rf tests
  fi
  r=$( (ulimit -v 8000000; timeout -k 5 1200 cargo test --lib --offline 2>&1) | grep -E '^test result|timed out|Killed|memory allocation' | head -2 | tr '\n' ' ')
  [ -z "$r" ] && r="no result within 20 min / 8 GB (a test does not terminate with this change)"
  echo "library suite WITH the change (cargo test --lib --offline): $r" >> "$OUT"
  git checkout -q -- . ; rm -rf tests
  echo "== $D"; cat "$OUT"
done
