#!/usr/bin/env python3
"""Writes/updates seeded/<id>/meta.json from notes.md, confirm.txt and a detection result line."""
import json, os, sys, re
d=sys.argv[1]; prop=sys.argv[2]; needs=sys.argv[3]; detected=sys.argv[4:]  # "C11:rc=1" ...
mp=os.path.join(d,'meta.json')
m=json.load(open(mp)) if os.path.exists(mp) else {}
m.setdefault('id', os.path.basename(d.rstrip('/')))
m.setdefault('origin', 'fresh sub-agent given only the text of the property and a private worktree of /repo' if 'agent' in m['id'] else 'framework author')
m['breaks_property']=prop
m['needs_to_manifest']=needs
cf=os.path.join(d,'confirm.txt')
if os.path.exists(cf):
    t=open(cf).read()
    m['confirmed']={
      'suite_with_change': (re.search(r'library suite WITH the change.*?: (.*)',t) or [None,''])[1].strip(),
      'demo_without_change': (re.search(r'demo WITHOUT the change: (.*)',t) or [None,''])[1].strip(),
      'demo_with_change': (re.search(r'demo WITH the change: (.*)',t) or [None,''])[1].strip(),
      'how': 'tools/confirm_seed.sh in a scratch worktree of /repo (removed afterwards)',
    }
if detected:
    m['checks_run']={x.split(':')[0]: x.split(':',1)[1] for x in detected}
json.dump(m,open(mp,'w'),indent=1)
print(mp)
