#!/bin/bash
# tools/ingest.sh <Cxx> <n> [extra checks...]: copy /tmp/seed/<Cxx>b/_out into seeded/agent-<Cxx>-<n>, run its target check
id=$1; n=$2; shift 2
d=/verif/seeded/agent-$id-$n
mkdir -p $d; S=${SUF:-b}; cp /tmp/seed/${id}$S/_out/patch.diff /tmp/seed/${id}$S/_out/demo.rs /tmp/seed/${id}$S/_out/notes.md $d/ 2>/dev/null
grep '^[-+]' $d/patch.diff | grep -v '^+++\|^---' | head -20
cd /verif && ./tools/seedrun.sh $d/patch.diff $id "$@" 2>&1 | cut -c1-320
