#!/bin/bash
# tools/seedrun.sh <patch.diff> <check id>...   apply a property-breaking change to /repo,
# run the named quick checks, always revert. Prints one line per check:
#   <id> rc=<exit> [VIOLATION lines]
# Never commits anything in /repo.
set -u
PATCH="$(readlink -f "$1")"; shift
cd /repo || exit 2
if [ -n "$(git status --porcelain -- src Cargo.toml)" ]; then echo "seedrun: /repo has uncommitted changes" >&2; exit 2; fi
trap 'git -C /repo checkout -- . >/dev/null 2>&1' EXIT
git apply "$PATCH" || { echo "seedrun: patch does not apply" >&2; exit 2; }
cd /verif
TIER="${SEED_TIER:-quick}"
for id in "$@"; do
  out=$(timeout -k 5 ${SEED_TIMEOUT:-1500} ./check "$id" "$TIER" 2>&1); rc=$?
  nv=$(echo "$out" | grep -c '^VIOLATION')
  first=$(echo "$out" | grep -m1 'violation:' | cut -c1-220)
  echo "$id rc=$rc violations_lines=$nv $first"
done
git -C /repo checkout -- . >/dev/null 2>&1
# restore evidence files written while the tree was mutated
git -C /verif checkout -- evidence >/dev/null 2>&1
