#!/bin/bash
# tools/seed_matrix.sh: run every seeded change against the check of the property it breaks
# (current machinery, quick tier) and record the outcome in seeded/<id>/result.json.
cd /verif
for d in ${SEED_DIRS:-seeded/*/}; do
  id=$(basename $d)
  p=$(python3 -c "import json;print(json.load(open('$d/meta.json'))['breaks_property'])" 2>/dev/null) || continue
  line=$(./tools/seedrun.sh $d/patch.diff $p 2>&1 | tail -1)
  rc=$(echo "$line" | sed -n 's/.* rc=\([0-9]*\) .*/\1/p')
  first=$(echo "$line" | sed -n 's/.*violations_lines=[0-9]* *//p' | cut -c1-240)
  python3 - "$d" "$p" "${rc:-?}" "$first" <<'PY'
import json,sys,subprocess
d,p,rc,first=sys.argv[1:5]
commit=subprocess.check_output(['git','-C','/verif','rev-parse','--short','HEAD']).decode().strip()
json.dump({"check":p,"tier":"quick","exit_code":rc,"first_violation":first,"verif_commit":commit},open(d+'/result.json','w'),indent=1)
PY
  echo "$id $p rc=${rc:-?}"
done
