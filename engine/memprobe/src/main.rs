//! memprobe — enumerates short programs `build G ; call E(args) [; call E2]`
//! over graaf's safe public API. No dependency besides graaf, so that it
//! builds quickly under Miri.
//!
//!   memprobe groups                 list groups: "<index> <probes> <name>"
//!   memprobe run <g> <from> <to>    run probes, announcing each: "PROBE g i name" / "DONE g i ok|panic"
//!   memprobe leak <g>               native only: heap growth between 3 and 6 repetitions of each probe
//!
//! Return values are not judged here (other checks do that); the oracles are
//! Miri (UB, data races), the process exit status (abort / signal) and the
//! counting allocator (growth).

#![allow(clippy::all)]

use graaf::algo::predecessor_tree::PredecessorTree;
use graaf::verif_rt::{set_parallelism, Parallelism};
use graaf::*;
use std::alloc::{GlobalAlloc, Layout, System};
use std::collections::{BTreeMap, BTreeSet};
use std::io::Write;
use std::panic::{catch_unwind, AssertUnwindSafe};
use std::sync::atomic::{AtomicIsize, Ordering};

struct Counting;
static LIVE: AtomicIsize = AtomicIsize::new(0);
unsafe impl GlobalAlloc for Counting {
    unsafe fn alloc(&self, l: Layout) -> *mut u8 {
        LIVE.fetch_add(l.size() as isize, Ordering::Relaxed);
        System.alloc(l)
    }
    unsafe fn dealloc(&self, p: *mut u8, l: Layout) {
        LIVE.fetch_sub(l.size() as isize, Ordering::Relaxed);
        System.dealloc(p, l)
    }
    unsafe fn realloc(&self, p: *mut u8, l: Layout, n: usize) -> *mut u8 {
        LIVE.fetch_add(n as isize - l.size() as isize, Ordering::Relaxed);
        System.realloc(p, l, n)
    }
}
#[global_allocator]
static A: Counting = Counting;

type AL = AdjacencyList;
type AM = AdjacencyMap;
type AX = AdjacencyMatrix;
type EL = EdgeList;
type WU = AdjacencyListWeighted<usize>;
type WI = AdjacencyListWeighted<isize>;

pub struct Probe {
    idx: usize,
    name: String,
    f: Box<dyn Fn()>,
    /// an argument is outside its domain, or the digraph is non-contiguous
    out_of_domain: bool,
}
pub struct Group {
    name: String,
    probes: Vec<Probe>,
    total: usize,
    ood: usize,
}

thread_local! {
    /// probes with index in [WIN.0, WIN.1) with (index - WIN.0) % WIN.2 == 0 are materialised; the others only counted
    static WIN: std::cell::Cell<(usize, usize, usize)> = const { std::cell::Cell::new((0, 0, 1)) };
    static CNT: std::cell::Cell<(usize, usize)> = const { std::cell::Cell::new((0, 0)) };
}

/// Counts the probe; materialises it only inside the window (names and
/// closures are expensive to build under Miri).
fn pw(ood: bool, name: impl FnOnce() -> String, f: impl FnOnce() -> Box<dyn Fn()>) -> Option<Probe> {
    let (n, o) = CNT.with(std::cell::Cell::get);
    CNT.with(|c| c.set((n + 1, o + usize::from(ood))));
    let (lo, hi, step) = WIN.with(std::cell::Cell::get);
    if n >= lo && n < hi && (n - lo) % step == 0 {
        Some(Probe { idx: n, name: name(), f: f(), out_of_domain: ood })
    } else {
        None
    }
}

/// consume any iterator fully
fn drain<I: Iterator>(i: I) -> usize {
    i.count()
}

// --------------------------------------------------------------------------
// digraph catalogue

fn pairs_on(vs: &[usize]) -> Vec<(usize, usize)> {
    let mut v = Vec::new();
    for &a in vs {
        for &b in vs {
            if a != b {
                v.push((a, b));
            }
        }
    }
    v
}

/// (label, vertex list, arcs) for every arc set on `vs`
fn all_on(vs: &[usize]) -> Vec<(String, Vec<usize>, Vec<(usize, usize)>)> {
    let ps = pairs_on(vs);
    (0..(1u64 << ps.len()))
        .map(|m| {
            let arcs: Vec<(usize, usize)> = ps.iter().enumerate().filter(|(i, _)| m >> i & 1 == 1).map(|(_, &a)| a).collect();
            (format!("V={vs:?} A={arcs:?}"), vs.to_vec(), arcs)
        })
        .collect()
}

trait Build: Sized + Clone + 'static {
    fn build(vs: &[usize], arcs: &[(usize, usize)]) -> Self;
}
macro_rules! build_contig {
    ($t:ty) => {
        impl Build for $t {
            fn build(vs: &[usize], arcs: &[(usize, usize)]) -> Self {
                let mut d = <$t>::empty(vs.len());
                for &(u, v) in arcs {
                    d.add_arc(u, v);
                }
                d
            }
        }
    };
}
build_contig!(AL);
build_contig!(AX);
build_contig!(EL);
impl Build for AM {
    fn build(vs: &[usize], arcs: &[(usize, usize)]) -> Self {
        let mut d = AM::empty(1);
        for &v in vs {
            if v != 0 {
                d.add_arc(0, v);
                let _ = d.remove_arc(0, v);
            }
        }
        for &(u, v) in arcs {
            d.add_arc(u, v);
        }
        if !vs.contains(&0) {
            d = d.filter_vertices(|x| x != 0);
        }
        d
    }
}
impl Build for WU {
    fn build(vs: &[usize], arcs: &[(usize, usize)]) -> Self {
        let mut d = WU::empty(vs.len());
        for (i, &(u, v)) in arcs.iter().enumerate() {
            d.add_arc_weighted(u, v, 1 + i % 2);
        }
        d
    }
}
impl Build for WI {
    fn build(vs: &[usize], arcs: &[(usize, usize)]) -> Self {
        let mut d = WI::empty(vs.len());
        for (i, &(u, v)) in arcs.iter().enumerate() {
            d.add_arc_weighted(u, v, if i % 2 == 0 { -1 } else { 2 });
        }
        d
    }
}

fn contiguous_catalogue(maxn: usize) -> Vec<(String, Vec<usize>, Vec<(usize, usize)>)> {
    let mut v = Vec::new();
    for n in 1..=maxn {
        let vs: Vec<usize> = (0..n).collect();
        v.extend(all_on(&vs));
    }
    v
}

fn sparse_catalogue(full: bool) -> Vec<(String, Vec<usize>, Vec<(usize, usize)>)> {
    let mut v = all_on(&[0, 5]);
    if level() == 0 {
        return v;
    }
    if full {
        v.extend(all_on(&[0, 1, 7]));
        v.extend(all_on(&[0, 3, 4]));
        v.extend(all_on(&[2, 9]));
    } else {
        v.extend(all_on(&[0, 1, 7]).into_iter().step_by(5));
        v.extend(all_on(&[2, 9]));
    }
    v
}

/// Catalogue level: `--level=N` on the command line (cargo-miri prefers build-time
/// environment variables over run-time ones, so an environment variable cannot carry
/// it reliably), else MEMPROBE_LEVEL, else 1.
fn level() -> usize {
    static L: std::sync::OnceLock<usize> = std::sync::OnceLock::new();
    *L.get_or_init(|| {
        std::env::args()
            .find_map(|a| a.strip_prefix("--level=").and_then(|v| v.parse().ok()))
            .or_else(|| std::env::var("MEMPROBE_LEVEL").ok().and_then(|v| v.parse().ok()))
            .unwrap_or(1)
    })
}

fn vertex_args(n: usize) -> Vec<usize> {
    let mut a = if level() == 0 { vec![0, n, 1000] } else { vec![0, n.saturating_sub(1), n, n + 1, 1000] };
    a.dedup();
    a
}

// --------------------------------------------------------------------------
// entry points

/// The read-only and mutating operations every representation offers.
macro_rules! common_ops {
    ($t:ty, $tn:expr, $cat:expr, $probes:expr) => {{
        for (label, vs, arcs) in $cat.iter() {
            let n = vs.len();
            let args = {
                let mut a = vertex_args(n);
                for &x in vs.iter() {
                    if !a.contains(&x) {
                        a.push(x);
                    }
                }
                a
            };
            let contiguous = vs.iter().copied().eq(0..n);
            let in_v = |x: usize| vs.contains(&x);
            let d0: std::rc::Rc<$t> = std::rc::Rc::new(<$t as Build>::build(vs, arcs));
            macro_rules! add {
                ($name:expr, $ood:expr, $body:expr) => {{
                    let d = std::rc::Rc::clone(&d0);
                    let body = $body;
                    $probes.extend(pw($ood || !contiguous, || format!("{} {} :: {}", $tn, label, $name), || Box::new(move || {
                        let _ = body(&d);
                    }) as Box<dyn Fn()>));
                }};
            }
            add!("order/size/arcs/vertices", false, |d: &$t| (d.order(), d.size(), drain(d.arcs()), drain(d.vertices())));
            add!("sequences", false, |d: &$t| (drain(d.degree_sequence()), drain(d.indegree_sequence()), drain(d.outdegree_sequence()), drain(d.semidegree_sequence()), drain(d.sinks()), drain(d.sources())));
            add!("min/max degrees", false, |d: &$t| (d.max_degree(), d.min_degree(), d.max_indegree(), d.min_indegree(), d.max_outdegree(), d.min_outdegree()));
            add!("predicates", false, |d: &$t| (d.is_complete(), d.is_regular(), d.is_semicomplete(), d.is_simple(), d.is_tournament(), d.is_balanced(), d.is_symmetric(), d.is_oriented()));
            add!("converse", false, |d: &$t| d.converse());
            add!("clone/eq/ord/debug", false, |d: &$t| {
                let c = d.clone();
                (c == *d, c.cmp(d), format!("{c:?}").len())
            });
            add!("relations with itself", false, |d: &$t| (d.is_subdigraph(d), d.is_superdigraph(d), d.is_spanning_subdigraph(d)));
            for &u in &args {
                let ood = !in_v(u);
                add!(format!("indegree({u})"), ood, move |d: &$t| d.indegree(u));
                add!(format!("outdegree({u})"), ood, move |d: &$t| d.outdegree(u));
                add!(format!("degree({u})"), ood, move |d: &$t| d.degree(u));
                add!(format!("is_sink/is_source/is_isolated/is_pendant({u})"), ood, move |d: &$t| {
                    let a = catch_unwind(AssertUnwindSafe(|| d.is_sink(u)));
                    let b = catch_unwind(AssertUnwindSafe(|| d.is_source(u)));
                    let c = catch_unwind(AssertUnwindSafe(|| d.is_isolated(u)));
                    let e = catch_unwind(AssertUnwindSafe(|| d.is_pendant(u)));
                    (a.is_ok(), b.is_ok(), c.is_ok(), e.is_ok())
                });
                add!(format!("out_neighbors({u})"), ood, move |d: &$t| drain(d.out_neighbors(u)));
                add!(format!("in_neighbors({u})"), ood, move |d: &$t| drain(d.in_neighbors(u)));
                for &v in &args {
                    let ood2 = ood || !in_v(v);
                    add!(format!("has_arc/has_edge({u},{v})"), ood2, move |d: &$t| (d.has_arc(u, v), d.has_edge(u, v)));
                    add!(format!("remove_arc({u},{v}) then observe"), ood2, move |d: &$t| {
                        let mut c = d.clone();
                        let r = c.remove_arc(u, v);
                        (r, drain(c.arcs()), c.size())
                    });
                }
                let args2 = args.clone();
                add!(format!("has_walk([{u}]) / has_walk([]) / has_walk([{u}, v, w]) for all v, w of the argument set"), true, move |d: &$t| {
                    let mut k = 0;
                    for &v in &args2 {
                        for &w in &args2 {
                            k += usize::from(d.has_walk(&[u, v, w])) + usize::from(d.has_walk(&[u, v]));
                        }
                    }
                    (d.has_walk(&[u]), d.has_walk(&[]), k)
                });
            }
        }
    }};
}

macro_rules! unweighted_ops {
    ($t:ty, $tn:expr, $cat:expr, $probes:expr) => {{
        for (label, vs, arcs) in $cat.iter() {
            let n = vs.len();
            let args = {
                let mut a = vertex_args(n);
                for &x in vs.iter() {
                    if !a.contains(&x) {
                        a.push(x);
                    }
                }
                a
            };
            let contiguous = vs.iter().copied().eq(0..n);
            let in_v = |x: usize| vs.contains(&x);
            let d0: std::rc::Rc<$t> = std::rc::Rc::new(<$t as Build>::build(vs, arcs));
            macro_rules! add {
                ($name:expr, $ood:expr, $body:expr) => {{
                    let d = std::rc::Rc::clone(&d0);
                    let body = $body;
                    $probes.extend(pw($ood || !contiguous, || format!("{} {} :: {}", $tn, label, $name), || Box::new(move || {
                        let _ = body(&d);
                    }) as Box<dyn Fn()>));
                }};
            }
            for par in [1usize, 2, 3] {
                add!(format!("complement [par {par}]"), false, move |d: &$t| {
                    let _ = set_parallelism(Parallelism::Fixed(par));
                    let c = d.complement();
                    (c.size(), c.complement() == *d)
                });
                add!(format!("union with converse / with itself [par {par}]"), false, move |d: &$t| {
                    let _ = set_parallelism(Parallelism::Fixed(par));
                    let c = d.converse();
                    (d.union(&c).size(), d.union(d).size(), c.union(d).size())
                });
            }
            add!("union with a larger / smaller digraph", false, |d: &$t| {
                let _ = set_parallelism(Parallelism::Fixed(2));
                let big = <$t>::cycle(5);
                let small = <$t>::empty(1);
                (d.union(&big).size(), big.union(d).size(), d.union(&small).size(), small.union(d).size())
            });
            for &u in &args {
                for &v in &args {
                    let ood = !in_v(u) || !in_v(v);
                    add!(format!("add_arc({u},{v}) then observe"), ood || u == v, move |d: &$t| {
                        let mut c = d.clone();
                        let r = catch_unwind(AssertUnwindSafe(|| c.add_arc(u, v)));
                        (r.is_ok(), drain(c.arcs()), c.size(), c.order())
                    });
                }
            }
        }
    }};
}

/// Traversals and the other algorithms, generic over the representation.
macro_rules! algo_ops {
    ($t:ty, $tn:expr, $cat:expr, $probes:expr) => {{
        for (label, vs, arcs) in $cat.iter() {
            let n = vs.len();
            let args = {
                let mut a = vertex_args(n);
                for &x in vs.iter() {
                    if !a.contains(&x) {
                        a.push(x);
                    }
                }
                a
            };
            let contiguous = vs.iter().copied().eq(0..n);
            let in_range = |x: usize| x < n;
            let d0: std::rc::Rc<$t> = std::rc::Rc::new(<$t as Build>::build(vs, arcs));
            macro_rules! add {
                ($name:expr, $ood:expr, $body:expr) => {{
                    let d = std::rc::Rc::clone(&d0);
                    let body = $body;
                    $probes.extend(pw($ood || !contiguous, || format!("{} {} :: {}", $tn, label, $name), || Box::new(move || {
                        let _ = body(&d);
                    }) as Box<dyn Fn()>));
                }};
            }
            let mut source_sets: Vec<Vec<usize>> = vec![vec![]];
            for &a in &args {
                source_sets.push(vec![a]);
            }
            if level() == 0 {
                // mini catalogue: one in-range pair (if any) and one mixed pair
                if n >= 2 {
                    source_sets.push(vec![1, 0]);
                }
                source_sets.push(vec![0, n]);
            } else {
                for (i, &a) in args.iter().enumerate() {
                    for &b in &args[i + 1..] {
                        source_sets.push(vec![a, b]);
                        source_sets.push(vec![b, a]);
                    }
                }
            }
            for s in source_sets {
                let ood = s.iter().any(|&x| !in_range(x));
                let s1 = s.clone();
                add!(format!("Bfs::new({s:?}) iterate, next() again, clone half-way"), ood, move |d: &$t| {
                    let mut it = Bfs::new(d, s1.clone().into_iter());
                    let a = it.next();
                    let c = it.clone();
                    let k = drain(it.by_ref());
                    (a, k, it.next(), drain(c))
                });
                let s1 = s.clone();
                add!(format!("BfsDist::new({s:?}) iterate; distances() twice"), ood, move |d: &$t| {
                    let k = drain(BfsDist::new(d, s1.clone().into_iter()));
                    let mut b = BfsDist::new(d, s1.clone().into_iter());
                    (k, b.distances(), b.distances())
                });
                let s1 = s.clone();
                add!(format!("BfsPred::new({s:?}) iterate; predecessors; cycles; shortest_path"), ood, move |d: &$t| {
                    let k = drain(BfsPred::new(d, s1.clone().into_iter()));
                    let t = BfsPred::new(d, s1.clone().into_iter()).predecessors();
                    let c = BfsPred::new(d, s1.clone().into_iter()).cycles();
                    let sp = BfsPred::new(d, s1.clone().into_iter()).shortest_path(|v| v > 0);
                    let sp2 = BfsPred::new(d, s1.clone().into_iter()).shortest_path(|_| false);
                    (k, t, c, sp, sp2)
                });
                let s1 = s.clone();
                add!(format!("Dfs/DfsDist/DfsPred::new({s:?}) iterate; predecessors"), ood, move |d: &$t| {
                    let a = drain(Dfs::new(d, s1.clone().into_iter()));
                    let b = drain(DfsDist::new(d, s1.clone().into_iter()));
                    let c = drain(DfsPred::new(d, s1.clone().into_iter()));
                    let mut it = DfsPred::new(d, s1.clone().into_iter());
                    let t = it.predecessors();
                    (a, b, c, t, it.next())
                });
            }
            add!("Tarjan::components twice", false, |d: &$t| {
                let mut t = Tarjan::new(d);
                let a = t.components().len();
                let b = t.components().len();
                (a, b)
            });
        }
    }};
}

macro_rules! weighted_ops {
    ($t:ty, $w:ty, $tn:expr, $cat:expr, $probes:expr) => {{
        for (label, vs, arcs) in $cat.iter() {
            let n = vs.len();
            let args = vertex_args(n);
            let in_range = |x: usize| x < n;
            let d0: std::rc::Rc<$t> = std::rc::Rc::new(<$t as Build>::build(vs, arcs));
            macro_rules! add {
                ($name:expr, $ood:expr, $body:expr) => {{
                    let d = std::rc::Rc::clone(&d0);
                    let body = $body;
                    $probes.extend(pw($ood, || format!("{} {} :: {}", $tn, label, $name), || Box::new(move || {
                        let _ = body(&d);
                    }) as Box<dyn Fn()>));
                }};
            }
            add!("arcs_weighted", false, |d: &$t| drain(d.arcs_weighted()));
            for &u in &args {
                add!(format!("out_neighbors_weighted({u})"), !in_range(u), move |d: &$t| drain(d.out_neighbors_weighted(u)));
                for &v in &args {
                    let ood = !in_range(u) || !in_range(v);
                    add!(format!("arc_weight({u},{v})"), ood, move |d: &$t| d.arc_weight(u, v).copied());
                    add!(format!("add_arc_weighted({u},{v},3) then observe"), ood || u == v, move |d: &$t| {
                        let mut c = d.clone();
                        let r = catch_unwind(AssertUnwindSafe(|| c.add_arc_weighted(u, v, 3 as $w)));
                        (r.is_ok(), drain(c.arcs_weighted()), c.size())
                    });
                }
            }
        }
    }};
}

fn dijkstra_probes(cat: &[(String, Vec<usize>, Vec<(usize, usize)>)], probes: &mut Vec<Probe>) {
    for (label, vs, arcs) in cat.iter() {
        let n = vs.len();
        let args = vertex_args(n);
        let d0 = WU::build(vs, arcs);
        let mut source_sets: Vec<Vec<usize>> = vec![vec![]];
        for &a in &args {
            source_sets.push(vec![a]);
        }
        for (i, &a) in args.iter().enumerate() {
            for &b in &args[i + 1..] {
                source_sets.push(vec![a, b]);
            }
        }
        for s in source_sets {
            let ood = s.iter().any(|&x| x >= n);
            let d = d0.clone();
            let nm = format!("WU {label} :: Dijkstra/DijkstraDist/DijkstraPred::new({s:?}) iterate; distances twice; predecessors; shortest_path; clone");
            probes.extend(pw(ood, move || nm, || Box::new(move || {
                let d = &d;
                let mut it = Dijkstra::new(d, s.clone().into_iter());
                let a = it.next();
                let c = it.clone();
                let k = drain(it.by_ref());
                let _ = (a, k, it.next(), drain(c));
                let _ = drain(DijkstraDist::new(d, s.clone().into_iter()));
                let mut dd = DijkstraDist::new(d, s.clone().into_iter());
                let _ = (dd.distances(), dd.distances());
                let _ = drain(DijkstraPred::new(d, s.clone().into_iter()));
                let _ = DijkstraPred::new(d, s.clone().into_iter()).predecessors();
                let _ = DijkstraPred::new(d, s.clone().into_iter()).shortest_path(|v| v > 0);
                let _ = DijkstraPred::new(d, s.clone().into_iter()).shortest_path(|_| false);
            }) as Box<dyn Fn()>));
        }
    }
}

fn bfm_fw_probes(cat: &[(String, Vec<usize>, Vec<(usize, usize)>)], probes: &mut Vec<Probe>) {
    for (label, vs, arcs) in cat.iter() {
        let n = vs.len();
        let d0 = WI::build(vs, arcs);
        for s in vertex_args(n) {
            let d = d0.clone();
            probes.extend(pw(s >= n, || format!("WI {label} :: BellmanFordMoore::new({s}).distances() twice"), || Box::new(move || {
                let mut b = BellmanFordMoore::new(&d, s);
                let x = b.distances().map(<[isize]>::to_vec);
                let y = b.distances().map(<[isize]>::to_vec);
                let _ = (x, y);
            }) as Box<dyn Fn()>));
        }
        let d = d0.clone();
        probes.extend(pw(false, || format!("WI {label} :: FloydWarshall::distances() twice, metrics"), || Box::new(move || {
            let mut f = FloydWarshall::new(&d);
            let a = f.distances().clone();
            let b = f.distances();
            let _ = (a == *b, b.center(), *b.diameter(), drain(b.eccentricities()), drain(b.periphery()), b.is_connected());
        }) as Box<dyn Fn()>));
    }
}

fn johnson_probes(cat: &[(String, Vec<usize>, Vec<(usize, usize)>)], probes: &mut Vec<Probe>) {
    for (label, vs, arcs) in cat.iter() {
        let contiguous = vs.iter().copied().eq(0..vs.len());
        let d = AM::build(vs, arcs);
        probes.extend(pw(!contiguous, || format!("AM {label} :: Johnson75::circuits twice; filter_vertices"), || Box::new(move || {
            let mut j = Johnson75::new(&d);
            let a = j.circuits();
            let b = j.circuits();
            let _ = (a.len(), b.len());
            let _ = d.filter_vertices(|v| v % 2 == 0).order();
            let _ = d.filter_vertices(|_| false).order();
            let _ = d.filter_vertices(|_| true) == d;
        }) as Box<dyn Fn()>));
    }
}

fn generator_probes(probes: &mut Vec<Probe>) {
    macro_rules! gens {
        ($t:ty, $tn:expr) => {{
            for n in [0usize, 1, 2, 3, 5] {
                for par in [1usize, 2, 3] {
                    probes.extend(pw(n == 0, || format!("{} generators order {n} [par {par}]", $tn), || Box::new(move || {
                        let _ = set_parallelism(Parallelism::Fixed(par));
                        macro_rules! g {
                            ($e:expr) => {
                                let _ = catch_unwind(AssertUnwindSafe(|| $e.size()));
                            };
                        }
                        g!(<$t>::empty(n));
                        g!(<$t>::complete(n));
                        g!(<$t>::circuit(n));
                        g!(<$t>::cycle(n));
                        g!(<$t>::path(n));
                        g!(<$t>::star(n));
                        g!(<$t>::wheel(n));
                        g!(<$t>::random_tournament(n, 3));
                        g!(<$t>::random_recursive_tree(n, 3));
                        for pr in [-0.1, 0.0, 0.5, 0.9, 1.0, 1.1, f64::NAN] {
                            g!(<$t>::erdos_renyi(n, pr, 5));
                        }
                    }) as Box<dyn Fn()>));
                }
            }
            for m in 0..3usize {
                for n in 0..3usize {
                    probes.extend(pw(m == 0 || n == 0, || format!("{} biclique({m},{n})", $tn), || Box::new(move || {
                        let _ = catch_unwind(AssertUnwindSafe(|| <$t>::biclique(m, n).size()));
                    }) as Box<dyn Fn()>));
                }
            }
            probes.extend(pw(false, || format!("{} trivial/claw/utility", $tn), || Box::new(|| {
                let _ = (<$t>::trivial().size(), <$t>::claw().size(), <$t>::utility().size());
            }) as Box<dyn Fn()>));
        }};
    }
    gens!(AL, "AL");
    gens!(AM, "AM");
    gens!(AX, "AX");
    gens!(EL, "EL");
}

/// Conversions out of an AdjacencyMap whose ids are not 0..order: the other
/// representations cannot hold such a digraph and must panic, not corrupt memory.
fn sparse_conversion_probes(sparse: &[(String, Vec<usize>, Vec<(usize, usize)>)], probes: &mut Vec<Probe>) {
    for (label, vs, arcs) in sparse.iter() {
        let d0 = std::rc::Rc::new(AM::build(vs, arcs));
        macro_rules! conv {
            ($name:expr, $e:expr) => {{
                let d = std::rc::Rc::clone(&d0);
                probes.extend(pw(true, || format!("AM {label} :: {}", $name), || Box::new(move || {
                    let m: AM = (*d).clone();
                    let _ = catch_unwind(AssertUnwindSafe(|| $e(m).size()));
                }) as Box<dyn Fn()>));
            }};
        }
        conv!("AdjacencyList::from(map)", |m| AL::from(m));
        conv!("AdjacencyMatrix::from(map)", |m| AX::from(m));
        conv!("EdgeList::from(map)", |m| EL::from(m));
        conv!("AdjacencyListWeighted::<usize>::from(map)", |m| WU::from(m));
        conv!("AdjacencyListWeighted::<isize>::from(map)", |m| WI::from(m));
        let d = std::rc::Rc::clone(&d0);
        probes.extend(pw(true, || format!("AM {label} :: relations and union with contiguous digraphs"), || Box::new(move || {
            let c = AM::cycle(3);
            let _ = (d.is_subdigraph(&c), c.is_subdigraph(&d), d.is_spanning_subdigraph(&c), d.is_superdigraph(&c));
            let _ = (d.union(&c).size(), c.union(&d).size());
        }) as Box<dyn Fn()>));
    }
}

fn conversion_probes(cat: &[(String, Vec<usize>, Vec<(usize, usize)>)], probes: &mut Vec<Probe>) {
    for (label, vs, arcs) in cat.iter() {
        let (vs, arcs) = (vs.clone(), arcs.clone());
        probes.extend(pw(false, || format!("conversions {label}"), || Box::new(move || {
            let al = AL::build(&vs, &arcs);
            let am = AM::from(al.clone());
            let ax = AX::from(am.clone());
            let el = EL::from(ax.clone());
            let _ = AL::from(el.clone()) == al;
            let _ = (AL::from(am.clone()), AL::from(ax.clone()), AM::from(ax.clone()), AM::from(el.clone()), AX::from(al.clone()), AX::from(el.clone()), EL::from(al.clone()), EL::from(am.clone()));
            let _ = (WU::from(al.clone()), WI::from(al.clone()), WU::from(am.clone()), WI::from(am), WU::from(ax.clone()), WI::from(ax), WU::from(el.clone()), WI::from(el));
        }) as Box<dyn Fn()>));
    }
    // From<rows>: every vector of ≤ 2 rows over subsets of {0,1,2}, valid or not
    for len in 0..=(if level() == 0 { 1usize } else { 2 }) {
        for code in 0..(8u64.pow(len as u32)) {
            let rows: Vec<BTreeSet<usize>> = (0..len).map(|i| (0..3).filter(|b| code >> (3 * i + b) & 1 == 1).collect()).collect();
            let valid = len > 0 && rows.iter().enumerate().all(|(i, r)| r.iter().all(|&v| v != i && v < len));
            let nm = format!("From<rows> {rows:?}");
            probes.extend(pw(!valid, move || nm, || Box::new(move || {
                let _ = catch_unwind(AssertUnwindSafe(|| AL::from(rows.clone()).size()));
                let _ = catch_unwind(AssertUnwindSafe(|| AM::from(rows.clone()).size()));
                let wrows: Vec<BTreeMap<usize, usize>> = rows.iter().map(|r| r.iter().map(|&v| (v, v + 1)).collect()).collect();
                let _ = catch_unwind(AssertUnwindSafe(|| WU::from(wrows).size()));
            }) as Box<dyn Fn()>));
        }
    }
    // From<arcs>: every sequence of ≤ 2 arcs over {0,1,2}², plus a far id
    let cells: Vec<(usize, usize)> = (0..3).flat_map(|u| (0..3).map(move |v| (u, v))).collect();
    let mut seqs: Vec<Vec<(usize, usize)>> = vec![vec![]];
    for &a in &cells {
        seqs.push(vec![a]);
        if level() > 0 {
            for &b in &cells {
                seqs.push(vec![a, b]);
            }
        }
    }
    seqs.push(vec![(0, 70)]);
    seqs.push(vec![(70, 0), (3, 70)]);
    for s in seqs {
        let valid = !s.is_empty() && s.iter().all(|&(u, v)| u != v);
        let nm = format!("From<arcs> {s:?}");
        probes.extend(pw(!valid, move || nm, || Box::new(move || {
            let _ = catch_unwind(AssertUnwindSafe(|| AX::from(s.clone()).size()));
            let _ = catch_unwind(AssertUnwindSafe(|| EL::from(s.clone()).size()));
        }) as Box<dyn Fn()>));
    }
}

fn predecessor_tree_probes(maxlen: usize, probes: &mut Vec<Probe>) {
    for len in 0..=maxlen {
        // entries: None, 0..len-1, len, 1000
        let mut alpha: Vec<Option<usize>> = vec![None];
        for i in 0..len {
            alpha.push(Some(i));
        }
        alpha.push(Some(len));
        alpha.push(Some(1000));
        let k = alpha.len() as u64;
        for code in 0..k.pow(len as u32) {
            let mut c = code;
            let pred: Vec<Option<usize>> = (0..len)
                .map(|_| {
                    let e = alpha[(c % k) as usize];
                    c /= k;
                    e
                })
                .collect();
            let ood = pred.iter().any(|e| e.is_some_and(|x| x >= len));
            let pr = pred.clone();
            probes.extend(pw(ood || len == 0, || format!("PredecessorTree::from({pred:?}) search / search_by / index / iterate from every start"), || Box::new(move || {
                let t = PredecessorTree::from(pr.clone());
                for s in 0..=pr.len() + 1 {
                    for tg in 0..=pr.len() + 1 {
                        let _ = catch_unwind(AssertUnwindSafe(|| t.search(s, tg)));
                    }
                    let _ = catch_unwind(AssertUnwindSafe(|| t.search_by(s, |_, p| p.is_none())));
                    let _ = catch_unwind(AssertUnwindSafe(|| t.search_by(s, |_, _| false)));
                    let _ = catch_unwind(AssertUnwindSafe(|| t[s]));
                }
                let mut t2 = t.clone();
                let _ = catch_unwind(AssertUnwindSafe(|| {
                    t2[0] = Some(1000);
                }));
                let _ = catch_unwind(AssertUnwindSafe(|| t2.search(0, 1)));
                let _ = drain(t.into_iter());
            }) as Box<dyn Fn()>));
        }
    }
    probes.extend(pw(true, || "PredecessorTree::new(0) / new(3)".into(), || Box::new(|| {
        let _ = catch_unwind(|| PredecessorTree::new(0));
        let _ = PredecessorTree::new(3).search(0, 2);
    }) as Box<dyn Fn()>));
}

fn distance_matrix_probes(probes: &mut Vec<Probe>) {
    for order in 0..=3usize {
        probes.extend(pw(order == 0, || format!("DistanceMatrix::new({order}) index in and out of range, metrics, fields overwritten"), || Box::new(move || {
            let r = catch_unwind(|| DistanceMatrix::new(order, usize::MAX));
            let Ok(mut m) = r else { return };
            for i in 0..=order * order + 1 {
                let _ = catch_unwind(AssertUnwindSafe(|| m[i]));
            }
            for u in 0..=order + 1 {
                for v in 0..=order + 1 {
                    let _ = catch_unwind(AssertUnwindSafe(|| m[(u, v)]));
                    let _ = catch_unwind(AssertUnwindSafe(|| {
                        m[(u, v)] = u + v;
                    }));
                }
            }
            let _ = catch_unwind(AssertUnwindSafe(|| m[..].len()));
            let _ = catch_unwind(AssertUnwindSafe(|| m[0..order * order + 1].len()));
            let _ = (m.center(), *m.diameter(), drain(m.eccentricities()), drain(m.periphery()), m.is_connected());
            // public fields overwritten
            let mut z = m.clone();
            z.order = 0;
            let _ = catch_unwind(AssertUnwindSafe(|| (z.center(), drain(z.eccentricities()), z.is_connected())));
            let _ = catch_unwind(AssertUnwindSafe(|| z[(1, 1)]));
            let mut s = m.clone();
            s.dist.truncate(1);
            let _ = catch_unwind(AssertUnwindSafe(|| (s.center(), *s.diameter(), drain(s.periphery()), s[(order, order)])));
            let mut big = m.clone();
            big.order = 1000;
            let _ = catch_unwind(AssertUnwindSafe(|| (big.center(), *big.diameter(), big[(2, 2)])));
        }) as Box<dyn Fn()>));
    }
    probes.extend(pw(true, || "DistanceMatrix::<isize>::new(usize::MAX) / new(1<<32)".into(), || Box::new(|| {
        let _ = catch_unwind(|| DistanceMatrix::new(usize::MAX, 0isize).order);
        let _ = catch_unwind(|| DistanceMatrix::new(1usize << 32, 0u8).order);
    }) as Box<dyn Fn()>));
}

fn overflow_probes(probes: &mut Vec<Probe>) {
    probes.extend(pw(true, || "AdjacencyMatrix::empty(1 << 32) then add_arc(0, 1) / has_arc / arcs".into(), || Box::new(|| {
        let r = catch_unwind(|| {
            let mut d = AX::empty(1usize << 32);
            d.add_arc(0, 1);
            let first = d.arcs().next();
            (d.has_arc(0, 1), first, d.size())
        });
        let _ = r.is_ok();
    }) as Box<dyn Fn()>));
    probes.extend(pw(true, || "AdjacencyMatrix::from([(0, usize::MAX)]) / EdgeList::from([(0, usize::MAX)])".into(), || Box::new(|| {
        let _ = catch_unwind(|| AX::from(vec![(0usize, usize::MAX)]).size());
        let _ = catch_unwind(|| EL::from(vec![(0usize, usize::MAX)]).order());
    }) as Box<dyn Fn()>));
    probes.extend(pw(true, || "AdjacencyMatrix::empty(1 << 33) / complete(1 << 32) (overflowing cell counts)".into(), || Box::new(|| {
        let _ = catch_unwind(|| AX::empty(1usize << 33).order());
        let _ = catch_unwind(|| AX::empty((1usize << 32) + 1).order());
    }) as Box<dyn Fn()>));
    probes.extend(pw(false, || "Xoshiro256StarStar draws".into(), || Box::new(|| {
        let mut r = graaf::gen::prng::Xoshiro256StarStar::new(u64::MAX);
        let _ = (r.next_f64(), r.next_bool(), r.next(), r.clone().next());
    }) as Box<dyn Fn()>));
}

fn threaded_probes(probes: &mut Vec<Probe>) {
    // the eight fork-join routines with 1, 2, 3 workers on order-4/5 inputs (Miri: data races)
    for par in [1usize, 2, 3] {
        for n in [1usize, 2, 4, 5] {
            probes.extend(pw(false, || format!("threaded routines order {n} [par {par}]"), || Box::new(move || {
                let _ = set_parallelism(Parallelism::Fixed(par));
                let a = AL::cycle(n);
                let b = AL::star(n);
                let _ = (a.complement().size(), a.union(&b).size(), drain(a.degree_sequence()), AL::complete(n).is_semicomplete(), a.is_semicomplete());
                let ma = AM::cycle(n);
                let mb = AM::star(n);
                let _ = (ma.union(&mb).size(), AM::random_tournament(n, 1).size(), AM::erdos_renyi(n, 0.3, 1).size(), AM::erdos_renyi(n, 0.8, 1).size());
            }) as Box<dyn Fn()>));
        }
    }
    probes.extend(pw(false, || "threaded routines with the Err answer of available_parallelism".into(), || Box::new(|| {
        let _ = set_parallelism(Parallelism::Unavailable);
        let a = AL::cycle(4);
        let _ = (a.complement().size(), a.union(&a).size(), drain(a.degree_sequence()), a.is_semicomplete(), AL::complete(3).size());
        let _ = (AM::cycle(3).union(&AM::star(4)).size(), AM::random_tournament(4, 1).size(), AM::erdos_renyi(4, 0.3, 1).size());
    }) as Box<dyn Fn()>));
}

/// Orders around the 32 / 64 thresholds of any packed structure: three sparse shapes
/// through the traversals, algorithms, operators and conversions.
fn large_probes(probes: &mut Vec<Probe>) {
    let orders: &[usize] = if level() == 0 { &[33] } else { &[33, 65] };
    for &n in orders {
        let vs: Vec<usize> = (0..n).collect();
        let mut shapes: Vec<(&str, Vec<(usize, usize)>)> = vec![
            ("path", (0..n - 1).map(|u| (u, u + 1)).collect()),
            ("cycle", (0..n).flat_map(|u| [(u, (u + 1) % n), ((u + 1) % n, u)]).collect()),
            ("hops of 32", (0..n).flat_map(|u| [(u, (u + 1) % n), (u, (u + 32) % n)]).filter(|&(a, b)| a != b).collect()),
        ];
        if level() == 0 {
            // mini catalogue (Miri): the two shapes that cross the 32-boundary in one hop
            shapes.retain(|(n, _)| *n != "cycle");
        }
        for (sname, arcs) in shapes {
            macro_rules! rep {
                ($t:ty, $tn:expr) => {{
                    let d0 = std::rc::Rc::new(<$t as Build>::build(&vs, &arcs));
                    let srcs: Vec<Vec<usize>> = if level() == 0 { vec![vec![0], vec![32], vec![n], vec![0, 32]] } else { vec![vec![0], vec![32], vec![n - 1], vec![n], vec![1000], vec![0, 32], vec![]] };
                    for s in srcs {
                        let d = std::rc::Rc::clone(&d0);
                        let ood = s.iter().any(|&x| x >= n);
                        let nm = format!("{} order {n} {sname} :: all traversals from {s:?}", $tn);
                        probes.extend(pw(ood, move || nm, || Box::new(move || {
                            let d: &$t = &d;
                            let _ = drain(Bfs::new(d, s.clone().into_iter()));
                            let _ = BfsDist::new(d, s.clone().into_iter()).distances();
                            let _ = BfsPred::new(d, s.clone().into_iter()).predecessors();
                            let _ = BfsPred::new(d, s.clone().into_iter()).shortest_path(|v| v == 33 % n);
                            let _ = BfsPred::new(d, s.clone().into_iter()).cycles().len();
                            let _ = drain(Dfs::new(d, s.clone().into_iter()));
                            let _ = drain(DfsDist::new(d, s.clone().into_iter()));
                            let _ = DfsPred::new(d, s.clone().into_iter()).predecessors();
                        }) as Box<dyn Fn()>));
                    }
                    let d = std::rc::Rc::clone(&d0);
                    probes.extend(pw(false, || format!("{} order {n} {sname} :: queries, predicates, converse, Tarjan", $tn), || Box::new(move || {
                        let d: &$t = &d;
                        let _ = (d.size(), drain(d.arcs()), drain(d.degree_sequence()), drain(d.indegree_sequence()), drain(d.sinks()), drain(d.sources()));
                        let _ = (d.is_complete(), d.is_regular(), d.is_semicomplete(), d.is_tournament(), d.is_balanced(), d.is_symmetric(), d.is_oriented());
                        let _ = (d.has_arc(32, 33 % n), d.has_arc(n, 0), d.has_walk(&[0, 1, 2, n, 1000]), drain(d.in_neighbors(32)), d.indegree(n - 1));
                        let _ = d.converse().size();
                        let _ = Tarjan::new(d).components().len();
                    }) as Box<dyn Fn()>));
                }};
            }
            rep!(AL, "AL");
            rep!(AX, "AX");
            if level() > 0 {
                rep!(AM, "AM");
                rep!(EL, "EL");
                rep!(WU, "WU");
            }
            macro_rules! unw {
                ($t:ty, $tn:expr) => {{
                    let d0 = std::rc::Rc::new(<$t as Build>::build(&vs, &arcs));
                    for par in [1usize, 3] {
                        let d = std::rc::Rc::clone(&d0);
                        probes.extend(pw(false, || format!("{} order {n} {sname} :: complement, union, conversions [par {par}]", $tn), || Box::new(move || {
                            let d: &$t = &d;
                            let _ = set_parallelism(Parallelism::Fixed(par));
                            let c = d.complement();
                            let _ = (c.size(), d.union(&c).size(), c.union(d).is_complete(), d.union(&<$t>::cycle(5)).size());
                            let _ = (AL::from(AX::from(AM::from(EL::from(AL::from((*d).clone()))))).size(), WU::from((*d).clone()).size());
                        }) as Box<dyn Fn()>));
                    }
                }};
            }
            unw!(AL, "AL");
            unw!(AX, "AX");
            if level() > 0 {
                unw!(AM, "AM");
                unw!(EL, "EL");
            }
            let arcs2 = arcs.clone();
            let vs2 = vs.clone();
            probes.extend(pw(false, || format!("WU/WI order {n} {sname} :: Dijkstra, BellmanFordMoore, FloydWarshall, Johnson75 (sparse shapes)"), || Box::new(move || {
                let wu = WU::build(&vs2, &arcs2);
                let wi = WI::build(&vs2, &arcs2);
                for s in [0usize, 32, n - 1] {
                    let _ = DijkstraDist::new(&wu, std::iter::once(s)).distances();
                    let _ = DijkstraPred::new(&wu, std::iter::once(s)).shortest_path(|v| v == 33 % n);
                    let _ = BellmanFordMoore::new(&wi, s).distances().map(<[isize]>::len);
                }
                let _ = FloydWarshall::new(&wi).distances().is_connected();
                if arcs2.len() < 2 * n {
                    let m = AM::build(&vs2, &arcs2);
                    let _ = Johnson75::new(&m).circuits().len();
                }
            }) as Box<dyn Fn()>));
        }
        let pr: Vec<Option<usize>> = (0..n).map(|i| if i + 32 < n { Some(i + 32) } else if i % 3 == 0 { None } else { Some(i - 1) }).collect();
        probes.extend(pw(false, || format!("PredecessorTree of length {n} :: search from every start"), || Box::new(move || {
            let t = PredecessorTree::from(pr.clone());
            for s in 0..n {
                let _ = t.search(s, 0);
                let _ = t.search_by(s, |_, p| p.is_none());
            }
        }) as Box<dyn Fn()>));
        probes.extend(pw(false, || format!("DistanceMatrix of order {n} :: fill and metrics"), || Box::new(move || {
            let mut m = DistanceMatrix::new(n, usize::MAX);
            for u in 0..n {
                for v in 0..n {
                    m[(u, v)] = (u * 3 + v) % 17;
                }
            }
            let _ = (m.center(), *m.diameter(), drain(m.periphery()), m.is_connected());
        }) as Box<dyn Fn()>));
    }
}

/// Deliberately wrong in-harness code: every oracle must flag its canary,
/// else the supervisor reports a machinery error. Never counted as coverage.
fn canary_probes(probes: &mut Vec<Probe>) {
    probes.extend(pw(true, || "canary: raw-pointer write 40 bytes past a 3-byte Vec (Miri and valgrind must report)".into(), || {
        Box::new(|| {
            let mut v = vec![0u8; 3];
            let p = v.as_mut_ptr();
            unsafe {
                *p.add(std::hint::black_box(40)) = 1;
            }
            std::hint::black_box(&v);
        }) as Box<dyn Fn()>
    }));
    probes.extend(pw(true, || "canary: leaks 100 bytes per call (the growth test must report)".into(), || {
        Box::new(|| {
            std::mem::forget(std::hint::black_box(vec![0u8; 100]));
        }) as Box<dyn Fn()>
    }));
    probes.extend(pw(true, || "canary: get_unchecked out of range (the debug-assertion build must abort)".into(), || {
        Box::new(|| {
            let v = vec![0u8; 3];
            let x = unsafe { *v.get_unchecked(std::hint::black_box(7)) };
            std::hint::black_box(x);
        }) as Box<dyn Fn()>
    }));
    probes.extend(pw(false, || "canary: a correct probe".into(), || Box::new(|| {}) as Box<dyn Fn()>));
}

/// Builds group `only` (or all groups when `None`); the other groups are
/// returned empty, so that a single group can be materialised cheaply.
pub fn catalogue(full: bool, only: Option<usize>) -> Vec<Group> {
    let maxn = if full { 3 } else { 2 };
    let cat = contiguous_catalogue(maxn);
    // a few order-3 digraphs also in the small catalogue
    let mut cat_small = cat.clone();
    if !full {
        let o3 = all_on(&[0, 1, 2]);
        for i in [0usize, 9, 27, 45, 63] {
            cat_small.push(o3[i].clone());
        }
    }
    let cat = cat_small;
    let sparse = sparse_catalogue(full);
    let mut groups = Vec::new();
    macro_rules! group {
        ($name:expr, $body:expr) => {{
            let mut probes: Vec<Probe> = Vec::new();
            CNT.with(|c| c.set((0, 0)));
            if only.map_or(true, |o| o == groups.len()) {
                $body(&mut probes);
            }
            let (total, ood) = CNT.with(std::cell::Cell::get);
            groups.push(Group { name: $name.to_string(), probes, total, ood });
        }};
    }
    group!("common/AL", |pr: &mut Vec<Probe>| common_ops!(AL, "AL", cat, pr));
    group!("common/AM", |pr: &mut Vec<Probe>| common_ops!(AM, "AM", cat, pr));
    group!("common/AM-sparse", |pr: &mut Vec<Probe>| common_ops!(AM, "AM", sparse, pr));
    group!("common/AX", |pr: &mut Vec<Probe>| common_ops!(AX, "AX", cat, pr));
    group!("common/EL", |pr: &mut Vec<Probe>| common_ops!(EL, "EL", cat, pr));
    group!("common/WU", |pr: &mut Vec<Probe>| common_ops!(WU, "WU", cat, pr));
    group!("common/WI", |pr: &mut Vec<Probe>| common_ops!(WI, "WI", cat, pr));
    group!("unweighted/AL", |pr: &mut Vec<Probe>| unweighted_ops!(AL, "AL", cat, pr));
    group!("unweighted/AM", |pr: &mut Vec<Probe>| unweighted_ops!(AM, "AM", cat, pr));
    group!("unweighted/AM-sparse", |pr: &mut Vec<Probe>| unweighted_ops!(AM, "AM", sparse, pr));
    group!("unweighted/AX", |pr: &mut Vec<Probe>| unweighted_ops!(AX, "AX", cat, pr));
    group!("unweighted/EL", |pr: &mut Vec<Probe>| unweighted_ops!(EL, "EL", cat, pr));
    group!("weighted/WU", |pr: &mut Vec<Probe>| weighted_ops!(WU, usize, "WU", cat, pr));
    group!("weighted/WI", |pr: &mut Vec<Probe>| weighted_ops!(WI, isize, "WI", cat, pr));
    group!("algo/AL", |pr: &mut Vec<Probe>| algo_ops!(AL, "AL", cat, pr));
    group!("algo/AM", |pr: &mut Vec<Probe>| algo_ops!(AM, "AM", cat, pr));
    group!("algo/AM-sparse", |pr: &mut Vec<Probe>| algo_ops!(AM, "AM", sparse, pr));
    group!("algo/AX", |pr: &mut Vec<Probe>| algo_ops!(AX, "AX", cat, pr));
    group!("algo/EL", |pr: &mut Vec<Probe>| algo_ops!(EL, "EL", cat, pr));
    group!("algo/WU", |pr: &mut Vec<Probe>| algo_ops!(WU, "WU", cat, pr));
    group!("dijkstra/WU", |pr: &mut Vec<Probe>| dijkstra_probes(&cat, pr));
    group!("bfm-fw/WI", |pr: &mut Vec<Probe>| bfm_fw_probes(&cat, pr));
    group!("johnson/AM", |pr: &mut Vec<Probe>| johnson_probes(&cat, pr));
    group!("johnson/AM-sparse", |pr: &mut Vec<Probe>| johnson_probes(&sparse, pr));
    group!("generators", |pr: &mut Vec<Probe>| generator_probes(pr));
    group!("conversions", |pr: &mut Vec<Probe>| conversion_probes(&cat, pr));
    group!("conversions/AM-sparse", |pr: &mut Vec<Probe>| sparse_conversion_probes(&sparse, pr));
    group!("predecessor-tree", |pr: &mut Vec<Probe>| predecessor_tree_probes(if full { 3 } else { 2 }, pr));
    group!("distance-matrix", |pr: &mut Vec<Probe>| distance_matrix_probes(pr));
    group!("overflow", |pr: &mut Vec<Probe>| overflow_probes(pr));
    group!("threaded", |pr: &mut Vec<Probe>| threaded_probes(pr));
    group!("large", |pr: &mut Vec<Probe>| large_probes(pr));
    group!("canary", |pr: &mut Vec<Probe>| canary_probes(pr));
    groups
}

fn main() {
    let args: Vec<String> = std::env::args().filter(|a| !a.starts_with("--level=")).collect();
    std::panic::set_hook(Box::new(|_| {}));
    let full = level() >= 2;
    let _ = set_parallelism(Parallelism::Fixed(2));
    let cmd = args.get(1).map_or("groups", String::as_str);
    let out = std::io::stdout();
    let num = |i: usize, d: usize| args.get(i).and_then(|s| s.parse().ok()).unwrap_or(d);
    match cmd {
        "groups" => {
            // counts only: the window is empty, nothing is materialised
            WIN.with(|w| w.set((0, 0, 1)));
            for (i, g) in catalogue(full, None).iter().enumerate() {
                println!("{i} {} {} {}", g.total, g.ood, g.name);
            }
        }
        "run" | "leak" => {
            let gi = num(2, 0);
            let (from, to, step) = (num(3, 0), num(4, usize::MAX), num(5, 1).max(1));
            WIN.with(|w| w.set((from, to, step)));
            let groups = catalogue(full, Some(gi));
            let g = &groups[gi];
            for pr in &g.probes {
                let i = pr.idx;
                {
                    let mut o = out.lock();
                    let _ = writeln!(o, "PROBE {gi} {i} {}", pr.name);
                    let _ = o.flush();
                }
                let run = || {
                    let _ = set_parallelism(Parallelism::Fixed(2));
                    catch_unwind(AssertUnwindSafe(|| (pr.f)())).is_ok()
                };
                let verdict = if cmd == "run" {
                    if run() { "ok".to_string() } else { "panic".to_string() }
                } else {
                    // heap growth between 3 and 6 repetitions; two warm-up runs first
                    // (lazy statics, thread-local and stdout buffers)
                    run();
                    run();
                    let l0 = LIVE.load(Ordering::SeqCst);
                    for _ in 0..3 {
                        run();
                    }
                    let l1 = LIVE.load(Ordering::SeqCst);
                    for _ in 0..3 {
                        run();
                    }
                    let l2 = LIVE.load(Ordering::SeqCst);
                    if l1 > l0 && l2 > l1 { format!("LEAK {} {}", l1 - l0, l2 - l1) } else { "ok".to_string() }
                };
                let mut o = out.lock();
                let _ = writeln!(o, "DONE {gi} {i} {verdict}");
                let _ = o.flush();
            }
            println!("END {gi} {}", g.total);
        }
        _ => {
            eprintln!("usage: memprobe groups | run <g> [from to step] | leak <g> [from to step]");
            std::process::exit(2);
        }
    }
}
