//! Exhaustive-enumeration driver shared by every check.
//!
//! A check is a list of `Space`s. A space is a finite, index-addressable set
//! of cases `0..total`; every case is executed on the real code by a pool of
//! worker threads and judged against the reference model. Nothing is sampled:
//! a space is either enumerated completely or the run reports the cap that
//! stopped it. Each worker publishes a breadcrumb (space, index) before it
//! runs a case, so that a crash signal or a stalled worker can be attributed
//! to the exact case and turned into a replay file.

use serde_json::{json, Value};
use std::cell::Cell;
use std::collections::BTreeMap;
use std::io::Write as _;
use std::panic::{catch_unwind, AssertUnwindSafe};
use std::sync::atomic::{AtomicBool, AtomicU64, AtomicUsize, Ordering};
use std::sync::{Arc, Mutex};
use std::time::{Duration, Instant};

pub const MAX_WORKERS: usize = 64;
pub const VERIF_DIR: &str = "/verif";

/// One case, addressable for replay: `kind` names the space family, `p` its
/// parameters (order, representation index, alphabet id ...), `idx` the case.
#[derive(Clone, Debug, PartialEq, Eq)]
pub struct CaseId {
    pub kind: String,
    pub p: Vec<u64>,
    pub idx: u64,
}

impl CaseId {
    pub fn to_json(&self) -> Value {
        json!({"kind": self.kind, "p": self.p, "idx": self.idx})
    }
    pub fn from_json(v: &Value) -> Option<Self> {
        Some(Self {
            kind: v.get("kind")?.as_str()?.to_string(),
            p: v.get("p")?.as_array()?.iter().filter_map(Value::as_u64).collect(),
            idx: v.get("idx")?.as_u64()?,
        })
    }
}

/// A violation observed on one case.
#[derive(Clone, Debug)]
pub struct Fail {
    pub case: CaseId,
    pub what: String,
    /// `Some(name)` when the failure matches a committed known finding
    /// exactly (classifier computed by the harness, never by message text).
    pub known: Option<String>,
    pub detail: Value,
}

/// Per-worker accumulator.
#[derive(Default)]
pub struct Ctx {
    pub cases: u64,
    pub execs: u64,
    pub nontrivial_cases: u64,
    cur_nontrivial: bool,
    cur_skipped: bool,
    pub tags: BTreeMap<&'static str, u64>,
    pub samples: Vec<Value>,
    pub fails: Vec<Fail>,
    pub fail_count: u64,
    pub known_count: BTreeMap<String, u64>,
    pub cur: Option<CaseId>,
    pub outcomes: BTreeMap<String, u64>,
    pub want_sample: bool,
}

impl Ctx {
    /// One execution of real code compared with the reference.
    #[inline]
    pub fn exec(&mut self) {
        self.execs += 1;
    }
    #[inline]
    pub fn execs_n(&mut self, n: u64) {
        self.execs += n;
    }
    /// Marks the current case as non-trivial (counted once per case).
    #[inline]
    pub fn nontrivial(&mut self) {
        self.cur_nontrivial = true;
    }
    /// The current index is outside the stated space (filtered out): not counted.
    #[inline]
    pub fn skip(&mut self) {
        self.cur_skipped = true;
    }
    #[inline]
    pub fn tag(&mut self, t: &'static str) {
        *self.tags.entry(t).or_insert(0) += 1;
    }
    #[inline]
    pub fn tag_n(&mut self, t: &'static str, n: u64) {
        *self.tags.entry(t).or_insert(0) += n;
    }
    pub fn sample(&mut self, v: impl FnOnce() -> Value) {
        if self.want_sample {
            self.samples.push(v());
            self.want_sample = false;
        }
    }
    pub fn fail(&mut self, what: impl Into<String>, detail: Value) {
        self.fail_known(what, detail, None);
    }
    pub fn fail_known(&mut self, what: impl Into<String>, detail: Value, known: Option<String>) {
        if let Some(k) = &known {
            *self.known_count.entry(k.clone()).or_insert(0) += 1;
            if self.known_count[k] > 3 {
                return;
            }
        } else {
            self.fail_count += 1;
            if self.fail_count > 8 {
                return;
            }
        }
        let case = self.cur.clone().unwrap_or(CaseId { kind: "?".into(), p: vec![], idx: 0 });
        self.fails.push(Fail { case, what: what.into(), known, detail });
    }
    fn begin(&mut self, c: CaseId) {
        self.cur = Some(c);
        self.cur_nontrivial = false;
        self.cur_skipped = false;
    }
    fn end(&mut self) {
        if self.cur_skipped {
            return;
        }
        self.cases += 1;
        if self.cur_nontrivial {
            self.nontrivial_cases += 1;
        }
    }
    pub fn to_json(&self) -> Value {
        json!({
            "cases": self.cases, "execs": self.execs, "nontrivial": self.nontrivial_cases,
            "tags": self.tags, "samples": self.samples, "fail_count": self.fail_count,
            "known_count": self.known_count, "outcomes": self.outcomes,
            "fails": self.fails.iter().map(|f| json!({"case": f.case.to_json(), "what": f.what, "known": f.known, "detail": f.detail})).collect::<Vec<_>>(),
        })
    }
    pub fn from_json(v: &Value) -> Ctx {
        let mut c = Ctx::default();
        let u = |k: &str| v.get(k).and_then(Value::as_u64).unwrap_or(0);
        c.cases = u("cases");
        c.execs = u("execs");
        c.nontrivial_cases = u("nontrivial");
        c.fail_count = u("fail_count");
        if let Some(t) = v.get("tags").and_then(Value::as_object) {
            for (k, x) in t {
                let key: &'static str = Box::leak(k.clone().into_boxed_str());
                c.tags.insert(key, x.as_u64().unwrap_or(0));
            }
        }
        if let Some(t) = v.get("known_count").and_then(Value::as_object) {
            for (k, x) in t {
                c.known_count.insert(k.clone(), x.as_u64().unwrap_or(0));
            }
        }
        if let Some(t) = v.get("outcomes").and_then(Value::as_object) {
            for (k, x) in t {
                c.outcomes.insert(k.clone(), x.as_u64().unwrap_or(0));
            }
        }
        if let Some(a) = v.get("samples").and_then(Value::as_array) {
            c.samples = a.clone();
        }
        if let Some(a) = v.get("fails").and_then(Value::as_array) {
            for f in a {
                if let Some(case) = f.get("case").and_then(CaseId::from_json) {
                    c.fails.push(Fail {
                        case,
                        what: f.get("what").and_then(Value::as_str).unwrap_or("").to_string(),
                        known: f.get("known").and_then(Value::as_str).map(str::to_string),
                        detail: f.get("detail").cloned().unwrap_or(Value::Null),
                    });
                }
            }
        }
        c
    }
    pub fn merge(&mut self, o: Ctx) {
        self.cases += o.cases;
        self.execs += o.execs;
        self.nontrivial_cases += o.nontrivial_cases;
        for (k, v) in o.tags {
            *self.tags.entry(k).or_insert(0) += v;
        }
        for (k, v) in o.outcomes {
            *self.outcomes.entry(k).or_insert(0) += v;
        }
        for s in o.samples {
            if self.samples.len() < 40 {
                self.samples.push(s);
            }
        }
        self.fail_count += o.fail_count;
        for (k, v) in o.known_count {
            *self.known_count.entry(k).or_insert(0) += v;
        }
        self.fails.extend(o.fails);
    }
}

pub type CaseFn = Arc<dyn Fn(u64, &mut Ctx) + Send + Sync>;

pub struct Space {
    pub kind: String,
    pub p: Vec<u64>,
    pub total: u64,
    pub desc: String,
    pub f: CaseFn,
    /// chunk of indices a worker takes at a time
    pub chunk: u64,
    /// run the shards of this space in child processes (one thread each)
    /// instead of threads: cases that spawn OS threads themselves contend on
    /// the process's address-space lock and do not scale inside one process
    pub procs: bool,
}

impl Space {
    pub fn new(kind: &str, p: Vec<u64>, total: u64, desc: impl Into<String>, f: impl Fn(u64, &mut Ctx) + Send + Sync + 'static) -> Self {
        let chunk = (total / 2048).clamp(1, 4096);
        Self { kind: kind.to_string(), p, total, desc: desc.into(), f: Arc::new(f), chunk, procs: false }
    }
    /// Marks the space as one whose cases spawn OS threads (see `procs`).
    pub fn procs(mut self) -> Self {
        self.procs = true;
        self.chunk = (self.total / 512).clamp(1, 256);
        self
    }
}

// ---------------------------------------------------------------------------
// Breadcrumbs, crash signals, watchdog

struct Slot {
    busy: AtomicBool,
    space: AtomicUsize,
    idx: AtomicU64,
    tick: AtomicU64,
}

#[allow(clippy::declare_interior_mutable_const)]
const SLOT_INIT: Slot = Slot { busy: AtomicBool::new(false), space: AtomicUsize::new(0), idx: AtomicU64::new(0), tick: AtomicU64::new(0) };
static SLOTS: [Slot; MAX_WORKERS] = [SLOT_INIT; MAX_WORKERS];

thread_local! {
    static WORKER: Cell<usize> = const { Cell::new(usize::MAX) };
}

/// Static description of the spaces of the running check, for the signal
/// handler (which cannot allocate): pre-rendered JSON prefixes.
static CRASH_TABLE: Mutex<Vec<String>> = Mutex::new(Vec::new());
static mut CRASH_PTRS: [(*const u8, usize); 256] = [(std::ptr::null(), 0); 256];
static mut CRASH_PROP: [u8; 8] = [0; 8];
static mut CRASH_PATH: [u8; 128] = [0; 128];
static mut CRASH_PATH_LEN: usize = 0;

extern "C" {
    fn signal(signum: i32, handler: usize) -> usize;
    fn write(fd: i32, buf: *const u8, n: usize) -> isize;
    fn open(path: *const u8, flags: i32, mode: u32) -> i32;
    fn close(fd: i32) -> i32;
    fn _exit(code: i32) -> !;
    fn sigaltstack(ss: *const StackT, old: *mut StackT) -> i32;
    fn sigaction(signum: i32, act: *const SigAction, old: *mut SigAction) -> i32;
}

#[repr(C)]
struct StackT {
    ss_sp: *mut u8,
    ss_flags: i32,
    ss_size: usize,
}

#[repr(C)]
struct SigAction {
    sa_sigaction: usize,
    sa_mask: [u64; 16],
    sa_flags: i32,
    sa_restorer: usize,
}

fn fmt_u64(mut n: u64, buf: &mut [u8; 24]) -> &[u8] {
    let mut i = 24;
    if n == 0 {
        i -= 1;
        buf[i] = b'0';
    }
    while n > 0 {
        i -= 1;
        buf[i] = b'0' + (n % 10) as u8;
        n /= 10;
    }
    &buf[i..]
}

unsafe fn wr(fd: i32, b: &[u8]) {
    let _ = write(fd, b.as_ptr(), b.len());
}

extern "C" fn on_crash(sig: i32) {
    unsafe {
        let w = WORKER.with(Cell::get);
        let mut nb = [0u8; 24];
        let prop = &CRASH_PROP[..];
        let plen = prop.iter().position(|&b| b == 0).unwrap_or(8);
        if w >= MAX_WORKERS || !SLOTS[w].busy.load(Ordering::Relaxed) {
            // Not inside a case: a machinery error, not a verdict.
            wr(2, b"gv: fatal signal ");
            wr(2, fmt_u64(sig as u64, &mut nb));
            wr(2, b" outside any case (machinery error)\n");
            _exit(2);
        }
        let sp = SLOTS[w].space.load(Ordering::Relaxed);
        let idx = SLOTS[w].idx.load(Ordering::Relaxed);
        let fd = open(CRASH_PATH.as_ptr(), 0o1101, 0o644); // O_WRONLY|O_CREAT|O_TRUNC
        if fd >= 0 {
            wr(fd, b"{\"property\":\"");
            wr(fd, &prop[..plen]);
            wr(fd, b"\",\"what\":\"process received fatal signal ");
            wr(fd, fmt_u64(sig as u64, &mut nb));
            wr(fd, b" while executing the real code on this case\",\"case\":");
            if sp < 256 && !CRASH_PTRS[sp].0.is_null() {
                wr(fd, std::slice::from_raw_parts(CRASH_PTRS[sp].0, CRASH_PTRS[sp].1));
            }
            wr(fd, fmt_u64(idx, &mut nb));
            wr(fd, b"}}\n");
            let _ = close(fd);
        }
        wr(1, b"\nVIOLATION property=");
        wr(1, &prop[..plen]);
        wr(1, b" replay=");
        wr(1, &CRASH_PATH[..CRASH_PATH_LEN]);
        wr(1, b"\n");
        wr(2, b"gv: fatal signal ");
        wr(2, fmt_u64(sig as u64, &mut nb));
        wr(2, b" inside a case; evidence file not rewritten\n");
        _exit(1);
    }
}

pub fn install_crash_handler(prop: &str, spaces: &[Space]) {
    let dir = format!("{VERIF_DIR}/replays/{prop}");
    let _ = std::fs::create_dir_all(&dir);
    let path = format!("{dir}/crash_{}.json\0", std::process::id());
    let mut table = CRASH_TABLE.lock().unwrap();
    table.clear();
    for s in spaces.iter().take(256) {
        table.push(format!("{{\"kind\":\"{}\",\"p\":{:?},\"idx\":", s.kind, s.p));
    }
    unsafe {
        for (i, t) in table.iter().enumerate() {
            CRASH_PTRS[i] = (t.as_ptr(), t.len());
        }
        for i in table.len()..256 {
            CRASH_PTRS[i] = (std::ptr::null(), 0);
        }
        CRASH_PROP = [0; 8];
        for (i, b) in prop.bytes().take(7).enumerate() {
            CRASH_PROP[i] = b;
        }
        CRASH_PATH = [0; 128];
        for (i, b) in path.bytes().take(127).enumerate() {
            CRASH_PATH[i] = b;
        }
        CRASH_PATH_LEN = path.len() - 1;
        for sig in [11, 6, 7, 4, 8] {
            // SIGSEGV SIGABRT SIGBUS SIGILL SIGFPE, on the alternate stack
            let act = SigAction { sa_sigaction: on_crash as usize, sa_mask: [0; 16], sa_flags: 0x0800_0000 | 0x4000_0000, sa_restorer: 0 };
            let _ = sigaction(sig, &act, std::ptr::null_mut());
        }
        let _ = signal as usize;
    }
}

fn install_altstack() {
    // per thread, so that a stack overflow inside the real code is reported too
    const SZ: usize = 1 << 16;
    let mem = Box::leak(vec![0u8; SZ].into_boxed_slice());
    let st = StackT { ss_sp: mem.as_mut_ptr(), ss_flags: 0, ss_size: SZ };
    unsafe {
        let _ = sigaltstack(&st, std::ptr::null_mut());
    }
}

pub fn silence_panics() {
    std::panic::set_hook(Box::new(|_| {}));
}

/// Runs `f`, turning a panic into `Err(message)`.
pub fn guarded<T>(f: impl FnOnce() -> T) -> Result<T, String> {
    catch_unwind(AssertUnwindSafe(f)).map_err(|e| {
        if let Some(s) = e.downcast_ref::<&str>() {
            (*s).to_string()
        } else if let Some(s) = e.downcast_ref::<String>() {
            s.clone()
        } else {
            "panic".to_string()
        }
    })
}

pub struct RunCfg {
    /// `Some((i, k))`: this process is shard i of k of one space
    pub shard: Option<(u64, u64)>,
    pub only_space: Option<usize>,
    pub prop: String,
    pub tier: String,
    pub workers: usize,
    pub stall_secs: u64,
    pub seed: u64,
}

pub struct RunOut {
    pub total: Ctx,
    pub per_space: Vec<Value>,
    pub wall: f64,
    pub complete: bool,
    pub incomplete_reason: Option<String>,
}

static STOP: AtomicBool = AtomicBool::new(false);

/// Enumerates every case of every space on `cfg.workers` threads.
pub fn run_spaces(cfg: &RunCfg, spaces: &[Space]) -> RunOut {
    let t0 = Instant::now();
    if cfg.shard.is_none() {
        // replay files of earlier runs would be mistaken for this run's
        if let Ok(rd) = std::fs::read_dir(format!("{VERIF_DIR}/replays/{}", cfg.prop)) {
            for e in rd.flatten() {
                let _ = std::fs::remove_file(e.path());
            }
        }
    }
    install_crash_handler(&cfg.prop, spaces);
    silence_panics();
    STOP.store(false, Ordering::SeqCst);
    let mut total = Ctx::default();
    let mut per_space = Vec::new();
    let workers = cfg.workers.clamp(1, MAX_WORKERS);

    // watchdog
    let wd_stop = Arc::new(AtomicBool::new(false));
    let wd = {
        let wd_stop = wd_stop.clone();
        let stall = cfg.stall_secs;
        let prop = cfg.prop.clone();
        let kinds: Vec<(String, Vec<u64>)> = spaces.iter().map(|s| (s.kind.clone(), s.p.clone())).collect();
        std::thread::spawn(move || {
            let mut last: Vec<(u64, Instant)> = (0..MAX_WORKERS).map(|_| (0, Instant::now())).collect();
            while !wd_stop.load(Ordering::Relaxed) {
                std::thread::sleep(Duration::from_millis(250));
                for w in 0..MAX_WORKERS {
                    let t = SLOTS[w].tick.load(Ordering::Relaxed);
                    if !SLOTS[w].busy.load(Ordering::Relaxed) || t != last[w].0 {
                        last[w] = (t, Instant::now());
                        continue;
                    }
                    if last[w].1.elapsed() > Duration::from_secs(stall) {
                        let sp = SLOTS[w].space.load(Ordering::Relaxed);
                        let idx = SLOTS[w].idx.load(Ordering::Relaxed);
                        let (kind, p) = kinds.get(sp).cloned().unwrap_or_default();
                        let case = CaseId { kind, p, idx };
                        let path = write_replay(&prop, &format!("stall_{}", std::process::id()), &json!({
                            "property": prop,
                            "what": format!("case did not finish within {stall} s (non-termination or pathological slowdown of the real code on this input; every reference computation of the harness is polynomial on the enumerated inputs)"),
                            "case": case.to_json(),
                        }));
                        println!("VIOLATION property={prop} replay={path}");
                        let _ = std::io::stdout().flush();
                        std::process::exit(1);
                    }
                }
            }
        })
    };

    for (si, sp) in spaces.iter().enumerate() {
        if cfg.only_space.is_some_and(|o| o != si) {
            continue;
        }
        let ts = Instant::now();
        let sctx_res = if sp.procs && workers > 1 && sp.total >= 32 && cfg.shard.is_none() {
            run_space_in_children(cfg, si, sp, workers)
        } else {
            Ok(run_one_space(cfg, si, sp, if cfg.shard.is_some() { 1 } else { workers }))
        };
        let mut sctx = match sctx_res {
            Ok(c) => c,
            Err(e) => {
                eprintln!("gv: machinery error in space {} {:?}: {e}", sp.kind, sp.p);
                std::process::exit(2);
            }
        };
        per_space.push(json!({
            "space": sp.kind, "params": sp.p, "description": sp.desc,
            "cases_total": sp.total, "cases_run": sctx.cases, "executions": sctx.execs,
            "nontrivial_cases": sctx.nontrivial_cases,
            "wall_s": (ts.elapsed().as_secs_f64() * 1000.0).round() / 1000.0,
        }));
        if std::env::var_os("GV_PROGRESS").is_some() {
            eprintln!("[{:>7.1}s] {} {:?} total={} execs={} ({:.2}s)", t0.elapsed().as_secs_f64(), sp.kind, sp.p, sp.total, sctx.execs, ts.elapsed().as_secs_f64());
        }
        sctx.samples.truncate(if spaces.len() > 8 { 1 } else { 3 });
        total.merge(sctx);
        if total.fail_count > 8 {
            // enough counterexamples: the run is a failure; the remaining spaces are not enumerated
            STOP.store(true, Ordering::Relaxed);
        }
        if STOP.load(Ordering::Relaxed) {
            break;
        }
    }
    wd_stop.store(true, Ordering::Relaxed);
    let _ = wd.join();
    let complete = !STOP.load(Ordering::Relaxed);
    RunOut {
        total,
        per_space,
        wall: t0.elapsed().as_secs_f64(),
        complete,
        incomplete_reason: if complete { None } else { Some("stopped early after more than 8 violations".into()) },
    }
}

/// Runs the cases of one space on `workers` threads of this process. With
/// `cfg.shard = Some((i, k))` only the chunks with number ≡ i (mod k).
fn run_one_space(cfg: &RunCfg, si: usize, sp: &Space, workers: usize) -> Ctx {
        let next = AtomicU64::new(0);
        let results: Mutex<Vec<Ctx>> = Mutex::new(Vec::new());
        let nw = workers.min(sp.total.div_ceil(sp.chunk).max(1) as usize);
        std::thread::scope(|s| {
            for w in 0..nw {
                let next = &next;
                let results = &results;
                let seed = cfg.seed;
                let _ = std::thread::Builder::new().stack_size(64 << 20).spawn_scoped(s, move || {
                    WORKER.with(|c| c.set(w));
                    install_altstack();
                    let mut ctx = Ctx::default();
                    let slot = &SLOTS[w];
                    slot.space.store(si, Ordering::Relaxed);
                    // which case of this worker's stream is written out as a sample
                    let sample_at = if sp.total > 0 { (seed.wrapping_mul(0x9E37_79B9).wrapping_add(w as u64 * 7919)) % sp.total.max(1) } else { 0 };
                    loop {
                        if STOP.load(Ordering::Relaxed) {
                            break;
                        }
                        let lo = next.fetch_add(sp.chunk, Ordering::Relaxed);
                        if lo >= sp.total {
                            break;
                        }
                        if let Some((i, k)) = cfg.shard {
                            if (lo / sp.chunk) % k != i {
                                continue;
                            }
                        }
                        let hi = (lo + sp.chunk).min(sp.total);
                        for idx in lo..hi {
                            slot.idx.store(idx, Ordering::Relaxed);
                            slot.tick.fetch_add(1, Ordering::Relaxed);
                            slot.busy.store(true, Ordering::Relaxed);
                            ctx.begin(CaseId { kind: sp.kind.clone(), p: sp.p.clone(), idx });
                            if ctx.samples.len() < 2 && (idx >= sample_at || idx + 1 == sp.total) && idx % 3 != 1 {
                                ctx.want_sample = true;
                            }
                            let r = catch_unwind(AssertUnwindSafe(|| (sp.f)(idx, &mut ctx)));
                            if r.is_err() {
                                ctx.fail("unexpected panic escaped the case body (harness or real code outside a guarded call)", json!({}));
                            }
                            ctx.end();
                            slot.busy.store(false, Ordering::Relaxed);
                        }
                        if ctx.fail_count > 8 {
                            // enough counterexamples; stop early, the run is a failure anyway
                            STOP.store(true, Ordering::Relaxed);
                        }
                    }
                    WORKER.with(|c| c.set(usize::MAX));
                    results.lock().unwrap().push(ctx);
                }).expect("spawn worker");
            }
        });
        let mut sctx = Ctx::default();
        for c in results.into_inner().unwrap() {
            sctx.merge(c);
        }
        sctx
}

/// Runs one space in `workers` child processes (`gv shard ...`), one thread
/// each, and merges their accumulators. A child that dies on a fatal signal
/// inside a case has already written its replay file and VIOLATION line.
fn run_space_in_children(cfg: &RunCfg, si: usize, sp: &Space, workers: usize) -> Result<Ctx, String> {
    let exe = std::env::current_exe().map_err(|e| e.to_string())?;
    let k = workers.min(sp.total.div_ceil(sp.chunk) as usize).max(1);
    let mut kids = Vec::new();
    for i in 0..k {
        let child = std::process::Command::new(&exe)
            .args(["shard", &cfg.prop, &cfg.tier, &si.to_string(), &i.to_string(), &k.to_string()])
            .env("VERIF_SEED", cfg.seed.to_string())
            .env_remove("GV_PROGRESS")
            .stdout(std::process::Stdio::piped())
            .stderr(std::process::Stdio::inherit())
            .spawn()
            .map_err(|e| format!("cannot spawn shard: {e}"))?;
        kids.push(child);
    }
    let mut total = Ctx::default();
    for (i, child) in kids.into_iter().enumerate() {
        let out = child.wait_with_output().map_err(|e| e.to_string())?;
        let text = String::from_utf8_lossy(&out.stdout).to_string();
        let mut got = false;
        for line in text.lines() {
            if let Some(j) = line.strip_prefix("@@CTX ") {
                let v: Value = serde_json::from_str(j).map_err(|e| format!("bad shard output: {e}"))?;
                total.merge(Ctx::from_json(&v));
                got = true;
            } else if let Some(rest) = line.strip_prefix("VIOLATION ") {
                // crash or stall inside a case, reported by the child itself
                let path = rest.split("replay=").nth(1).unwrap_or("").trim().to_string();
                let rep: Value = std::fs::read_to_string(&path).ok().and_then(|t| serde_json::from_str(&t).ok()).unwrap_or(Value::Null);
                let case = rep.get("case").and_then(CaseId::from_json).unwrap_or(CaseId { kind: sp.kind.clone(), p: sp.p.clone(), idx: 0 });
                total.fail_count += 1;
                total.fails.push(Fail { case, what: rep.get("what").and_then(Value::as_str).unwrap_or("shard process died inside a case").to_string(), known: None, detail: json!({"shard": i, "child_replay": path}) });
                got = true;
            }
        }
        if !got {
            return Err(format!("shard {i}/{k} ended with {:?} and no result", out.status));
        }
    }
    Ok(total)
}

pub fn write_replay(prop: &str, name: &str, v: &Value) -> String {
    let dir = format!("{VERIF_DIR}/replays/{prop}");
    let _ = std::fs::create_dir_all(&dir);
    let path = format!("{dir}/{name}.json");
    let _ = std::fs::write(&path, serde_json::to_string_pretty(v).unwrap());
    path
}

/// Known findings committed under /verif (never written at run time).
pub fn load_known_findings() -> Vec<Value> {
    let p = format!("{VERIF_DIR}/known_findings.json");
    let Ok(s) = std::fs::read_to_string(&p) else { return vec![] };
    let v: Value = serde_json::from_str(&s).unwrap_or(json!({}));
    v.get("known_findings").and_then(Value::as_array).cloned().unwrap_or_default()
}

pub struct Report {
    pub prop: String,
    pub tier: String,
    pub seed: u64,
    pub rule: String,
    pub assumptions: Vec<String>,
    pub bounds: Value,
    pub extra: Value,
}

/// Writes the evidence file, prints KNOWN-FINDING / VIOLATION lines and
/// returns the process exit code.
pub fn finish(rep: &Report, out: RunOut) -> i32 {
    let known = load_known_findings();
    let mut violations = 0u64;
    let mut viol_lines = Vec::new();
    let mut known_lines: BTreeMap<String, (u64, String)> = BTreeMap::new();
    let mut n = 0;
    for f in &out.total.fails {
        if n >= 12 && f.known.is_none() {
            violations += 1;
            continue;
        }
        let listed = f.known.as_ref().and_then(|k| {
            known.iter().find(|e| e.get("property").and_then(Value::as_str) == Some(&rep.prop) && e.get("classifier").and_then(Value::as_str) == Some(k))
        });
        if let (Some(k), Some(e)) = (&f.known, listed) {
            let what = e.get("what").and_then(Value::as_str).unwrap_or(k).to_string();
            let cnt = out.total.known_count.get(k).copied().unwrap_or(1);
            known_lines.insert(k.clone(), (cnt, what));
            continue;
        }
        violations += 1;
        n += 1;
        let path = write_replay(&rep.prop, &format!("violation_{n}"), &json!({
            "property": rep.prop, "what": f.what, "case": f.case.to_json(), "detail": f.detail,
            "classifier": f.known,
        }));
        viol_lines.push((path, f.what.clone()));
    }
    // unknown-classifier failures beyond the stored ones
    let stored_unknown = out.total.fails.iter().filter(|f| f.known.is_none()).count() as u64;
    if out.total.fail_count > stored_unknown {
        violations += out.total.fail_count - stored_unknown;
    }
    // classifier counts that are not listed are violations as well
    for (k, c) in &out.total.known_count {
        if !known_lines.contains_key(k) {
            let stored = out.total.fails.iter().filter(|f| f.known.as_deref() == Some(k)).count() as u64;
            if *c > stored {
                violations += c - stored;
            }
        }
    }
    let exhaustive = out.complete;
    let mut coverage = json!({
        "states": out.total.cases,
        "transitions": out.total.execs,
        "traces_validated_against_impl": out.total.execs,
        "evaluations": out.total.execs,
        "distinct_nontrivial": out.total.nontrivial_cases,
        "rule": rep.rule,
        "samples": out.total.samples,
        "exhaustive": exhaustive,
        "spaces": out.per_space,
        "tags": out.total.tags,
        "bounds": rep.bounds,
    });
    if !out.total.outcomes.is_empty() {
        coverage["outcomes"] = json!(out.total.outcomes);
    }
    if let Some(r) = &out.incomplete_reason {
        coverage["cap_hit"] = json!(r);
    }
    if let (Some(c), Some(e)) = (coverage.as_object_mut(), rep.extra.as_object()) {
        for (k, v) in e {
            c.insert(k.clone(), v.clone());
        }
    }
    if out.total.samples.is_empty() {
        coverage["samples"] = json!([{"note": "no sample recorded"}]);
    }
    let kf: Vec<Value> = known_lines.iter().map(|(k, (c, w))| json!({"classifier": k, "cases": c, "what": w})).collect();
    let ev = json!({
        "property_id": rep.prop,
        "tier": rep.tier,
        "seed": rep.seed,
        "level": "model_checking",
        "coverage": coverage,
        "assumptions": rep.assumptions,
        "wall_s": (out.wall * 1000.0).round() / 1000.0,
        "violations": violations,
        "known_findings_matched": kf,
    });
    let _ = std::fs::create_dir_all(format!("{VERIF_DIR}/evidence"));
    std::fs::write(format!("{VERIF_DIR}/evidence/{}.json", rep.prop), serde_json::to_string_pretty(&ev).unwrap()).expect("write evidence");
    for (k, (c, w)) in &known_lines {
        println!("KNOWN-FINDING: property={} {} [classifier={} cases={}]", rep.prop, w, k, c);
    }
    println!(
        "{} {}: states={} transitions={} nontrivial={} violations={} known={} exhaustive={} wall={:.1}s",
        rep.prop, rep.tier, out.total.cases, out.total.execs, out.total.nontrivial_cases, violations, known_lines.len(), exhaustive, out.wall
    );
    for (path, what) in &viol_lines {
        println!("  violation: {what}");
        println!("VIOLATION property={} replay={}", rep.prop, path);
    }
    if violations > 0 && viol_lines.is_empty() {
        println!("VIOLATION property={} replay={}/replays/{}/", rep.prop, VERIF_DIR, rep.prop);
    }
    if violations > 0 {
        1
    } else {
        0
    }
}
