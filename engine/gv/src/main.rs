//! gv — bounded-exhaustive model checking of bsdrks/graaf against a reference
//! model. `gv check <ID> <quick|thorough>` / `gv replay <ID> <file>`.

#![allow(clippy::all)]

mod core;
mod props;
mod refm;
mod reps;
#[cfg(feature = "sched")]
mod sched;
mod spacesx;

use crate::core::{CaseId, Ctx, Report, RunCfg, Space};
use serde_json::Value;

pub struct Check {
    pub spaces: Vec<Space>,
    pub report: Report,
    /// extra work after the enumeration (e.g. stateright closure, schedule
    /// exploration); may add to the context; returns extra coverage JSON.
    pub post: Option<Box<dyn FnOnce(&mut Ctx) -> Value>>,
}

fn usage() -> ! {
    eprintln!("usage: gv check <C01..C20> <quick|thorough> | gv replay <ID> <file> | gv list");
    std::process::exit(2);
}

fn main() {
    let args: Vec<String> = std::env::args().collect();
    if args.len() < 2 {
        usage();
    }
    let seed: u64 = std::env::var("VERIF_SEED").ok().and_then(|s| s.parse().ok()).unwrap_or(0);
    let workers: usize = std::env::var("GV_WORKERS").ok().and_then(|s| s.parse().ok()).unwrap_or_else(|| std::thread::available_parallelism().map_or(8, |n| n.get()));
    match args[1].as_str() {
        "check" => {
            if args.len() < 4 {
                usage();
            }
            let prop = args[2].to_uppercase();
            let tier = args[3].clone();
            if tier != "quick" && tier != "thorough" {
                usage();
            }
            // hard cap: a check that runs this long is a machinery error, never a verdict
            let cap: u64 = std::env::var("GV_HARD_CAP").ok().and_then(|s| s.parse().ok()).unwrap_or(if tier == "quick" { 1500 } else { 6 * 3600 });
            let _ = std::thread::spawn(move || {
                std::thread::sleep(std::time::Duration::from_secs(cap));
                eprintln!("gv: check exceeded its hard cap of {cap} s: machinery error, no verdict");
                std::process::exit(2);
            });
            let Some(mut chk) = props::build(&prop, &tier, seed) else {
                eprintln!("gv: unknown property {prop}");
                std::process::exit(2);
            };
            let cfg = RunCfg { shard: None, only_space: None, prop: prop.clone(), tier: tier.clone(), workers, stall_secs: std::env::var("GV_STALL").ok().and_then(|s| s.parse().ok()).unwrap_or(if tier == "quick" { 20 } else { 60 }), seed };
            let mut out = core::run_spaces(&cfg, &chk.spaces);
            if let Some(post) = chk.post.take() {
                let t = std::time::Instant::now();
                let extra = post(&mut out.total);
                out.wall += t.elapsed().as_secs_f64();
                if let (Some(a), Some(b)) = (chk.report.extra.as_object_mut(), extra.as_object()) {
                    for (k, v) in b {
                        a.insert(k.clone(), v.clone());
                    }
                }
            }
            let code = core::finish(&chk.report, out);
            std::process::exit(code);
        }
        "shard" => {
            // gv shard <prop> <tier> <space index> <i> <k>: one shard of one space, single worker
            if args.len() < 7 {
                usage();
            }
            let prop = args[2].to_uppercase();
            let tier = args[3].clone();
            let si: usize = args[4].parse().unwrap_or(usize::MAX);
            let i: u64 = args[5].parse().unwrap_or(0);
            let k: u64 = args[6].parse().unwrap_or(1);
            let Some(chk) = props::build(&prop, &tier, seed) else { std::process::exit(2) };
            if si >= chk.spaces.len() {
                std::process::exit(2);
            }
            let cfg = RunCfg { shard: Some((i, k)), only_space: Some(si), prop, tier, workers: 1, stall_secs: std::env::var("GV_STALL").ok().and_then(|s| s.parse().ok()).unwrap_or(60), seed };
            let out = core::run_spaces(&cfg, &chk.spaces);
            println!("@@CTX {}", out.total.to_json());
            std::process::exit(0);
        }
        "replay" => {
            if args.len() < 4 {
                usage();
            }
            let prop = args[2].to_uppercase();
            let text = std::fs::read_to_string(&args[3]).unwrap_or_else(|e| {
                eprintln!("gv: cannot read {}: {e}", args[3]);
                std::process::exit(2)
            });
            let v: Value = serde_json::from_str(&text).unwrap_or(Value::Null);
            let Some(case) = v.get("case").and_then(CaseId::from_json) else {
                eprintln!("gv: replay file has no case");
                std::process::exit(2);
            };
            if case.kind.starts_with("post:") {
                let code = props::replay_post(&prop, &case, &v);
                std::process::exit(code);
            }
            let mut found = None;
            for tier in ["quick", "thorough"] {
                if let Some(chk) = props::build(&prop, tier, seed) {
                    for sp in chk.spaces {
                        if sp.kind == case.kind && sp.p == case.p && case.idx < sp.total {
                            found = Some(sp);
                            break;
                        }
                    }
                }
                if found.is_some() {
                    break;
                }
            }
            let Some(sp) = found else {
                eprintln!("gv: no space {} {:?} for {prop}", case.kind, case.p);
                std::process::exit(2);
            };
            core::install_crash_handler(&prop, std::slice::from_ref(&sp));
            core::silence_panics();
            let mut ctx = Ctx::default();
            ctx.cur = Some(case.clone());
            ctx.want_sample = true;
            // run twice: the same case must give the same verdict (determinism of the harness)
            (sp.f)(case.idx, &mut ctx);
            let first: Vec<String> = ctx.fails.iter().map(|f| f.what.clone()).collect();
            let mut ctx2 = Ctx::default();
            ctx2.cur = Some(case.clone());
            (sp.f)(case.idx, &mut ctx2);
            let second: Vec<String> = ctx2.fails.iter().map(|f| f.what.clone()).collect();
            if first != second {
                eprintln!("gv: replay diverged between two runs of the same case (machinery error)");
                std::process::exit(2);
            }
            println!("replay {prop} {} {:?} idx={} -> {} failure(s)", case.kind, case.p, case.idx, ctx.fails.len());
            for s in &ctx.samples {
                println!("  case: {s}");
            }
            let known = core::load_known_findings();
            let mut bad = 0;
            for f in &ctx.fails {
                let listed = f.known.as_ref().is_some_and(|k| known.iter().any(|e| e.get("property").and_then(Value::as_str) == Some(&prop) && e.get("classifier").and_then(Value::as_str) == Some(k)));
                println!("  {}{}\n    {}", if listed { "[known finding] " } else { "" }, f.what, f.detail);
                if !listed {
                    bad += 1;
                }
            }
            if bad > 0 {
                println!("VIOLATION property={prop} replay={}", args[3]);
                std::process::exit(1);
            }
            std::process::exit(0);
        }
        #[cfg(feature = "sched")]
        "sched" => {
            if args.len() < 4 {
                usage();
            }
            std::process::exit(sched::main_sched(&args[2].to_uppercase(), &args[3]));
        }
        #[cfg(feature = "sched")]
        "sched-replay" => {
            let text = std::fs::read_to_string(&args[2]).unwrap_or_default();
            let v: Value = serde_json::from_str(&text).unwrap_or(Value::Null);
            std::process::exit(sched::replay_failure(&v));
        }
        "conf-battery" => {
            std::process::exit(props::conf::battery_main(args.get(2).map_or("system", String::as_str)));
        }
        "spaces" => {
            // gv spaces <ID> <tier>: what the check enumerates (for DESIGN.md)
            let prop = args.get(2).map_or(String::new(), |s| s.to_uppercase());
            let tier = args.get(3).cloned().unwrap_or_else(|| "quick".into());
            if let Some(chk) = props::build(&prop, &tier, seed) {
                for sp in &chk.spaces {
                    println!("{}\t{}\t{}", sp.kind, sp.total, sp.desc);
                }
                if chk.post.is_some() {
                    println!("(post phase)\t-\tsee the rule text");
                }
            }
        }
        "list" => {
            for id in props::ALL {
                println!("{id}");
            }
        }
        _ => usage(),
    }
}
