//! Uniform access to the five real representations.

use crate::core::guarded;
use crate::refm::Abs;
use graaf::*;
use std::collections::{BTreeMap, BTreeSet};
use std::fmt::Debug;
use std::hash::Hash;

pub type AL = AdjacencyList;
pub type AM = AdjacencyMap;
pub type AX = AdjacencyMatrix;
pub type EL = EdgeList;
pub type WU = AdjacencyListWeighted<usize>;
pub type WI = AdjacencyListWeighted<isize>;

/// The operations every representation offers.
pub trait Rep:
    Clone
    + Debug
    + Eq
    + Ord
    + Hash
    + Send
    + Sync
    + 'static
    + Arcs
    + Vertices
    + Order
    + Size
    + HasArc
    + HasEdge
    + HasWalk
    + Indegree
    + Outdegree
    + OutNeighbors
    + InNeighbors
    + IndegreeSequence
    + DegreeSequence
    + RemoveArc
    + IsComplete
    + IsRegular
    + IsSemicomplete
    + IsSimple
    + IsTournament
    + Converse
    + Empty
{
    const NAME: &'static str;
    const ID: u64;
    const WEIGHTED: bool = false;
    const CONTIGUOUS_ONLY: bool = true;
    /// `add_arc` (weight 1 for the weighted representation).
    fn add(&mut self, u: usize, v: usize);
    /// `add_arc_weighted` where available; `add_arc` otherwise (weight ignored).
    fn add_w(&mut self, u: usize, v: usize, w: i128) {
        let _ = w;
        self.add(u, v);
    }
    /// arcs with weights as observed (weight 1 for unweighted).
    fn observed_weights(&self) -> Option<BTreeMap<(usize, usize), i128>> {
        None
    }
    fn arc_weight_of(&self, _u: usize, _v: usize) -> Option<Option<i128>> {
        None
    }
    fn out_weighted(&self, _u: usize) -> Option<Vec<(usize, i128)>> {
        None
    }
}

macro_rules! rep_unweighted {
    ($t:ty, $name:expr, $id:expr, $contig:expr) => {
        impl Rep for $t {
            const NAME: &'static str = $name;
            const ID: u64 = $id;
            const CONTIGUOUS_ONLY: bool = $contig;
            fn add(&mut self, u: usize, v: usize) {
                self.add_arc(u, v);
            }
        }
    };
}
rep_unweighted!(AL, "AdjacencyList", 0, true);
rep_unweighted!(AM, "AdjacencyMap", 1, false);
rep_unweighted!(AX, "AdjacencyMatrix", 2, true);
rep_unweighted!(EL, "EdgeList", 3, true);

macro_rules! rep_weighted {
    ($t:ty, $w:ty, $name:expr, $id:expr) => {
        impl Rep for $t {
            const NAME: &'static str = $name;
            const ID: u64 = $id;
            const WEIGHTED: bool = true;
            fn add(&mut self, u: usize, v: usize) {
                self.add_arc_weighted(u, v, 1);
            }
            fn add_w(&mut self, u: usize, v: usize, w: i128) {
                self.add_arc_weighted(u, v, w as $w);
            }
            fn observed_weights(&self) -> Option<BTreeMap<(usize, usize), i128>> {
                Some(self.arcs_weighted().map(|(u, v, w)| ((u, v), *w as i128)).collect())
            }
            fn arc_weight_of(&self, u: usize, v: usize) -> Option<Option<i128>> {
                Some(self.arc_weight(u, v).map(|w| *w as i128))
            }
            fn out_weighted(&self, u: usize) -> Option<Vec<(usize, i128)>> {
                Some(self.out_neighbors_weighted(u).map(|(v, w)| (v, *w as i128)).collect())
            }
        }
    };
}
rep_weighted!(WU, usize, "AdjacencyListWeighted<usize>", 4);
rep_weighted!(WI, isize, "AdjacencyListWeighted<isize>", 5);

pub fn rep_name(id: u64) -> &'static str {
    match id {
        0 => AL::NAME,
        1 => AM::NAME,
        2 => AX::NAME,
        3 => EL::NAME,
        4 => WU::NAME,
        5 => WI::NAME,
        _ => "?",
    }
}

/// Builds the real digraph for a contiguous `abs` (V = 0..n) through the
/// public API: `empty(n)` then `add_arc`/`add_arc_weighted` per arc.
pub fn mk<R: Rep>(abs: &Abs) -> R {
    debug_assert!(abs.is_contiguous());
    let mut d = R::empty(abs.n());
    for &(u, v) in &abs.a {
        d.add_w(u, v, abs.weight(u, v));
    }
    d
}

/// Builds an `AdjacencyMap` with an arbitrary vertex set through the public
/// API only: `add_arc` admits new ids, `remove_arc` leaves them in V, and
/// `filter_vertices` drops 0 when it is not wanted. The result is validated
/// by `observe` by the callers.
pub fn mk_am(abs: &Abs) -> AM {
    if abs.is_contiguous() {
        return mk::<AM>(abs);
    }
    let mut d = AM::empty(1);
    for &v in &abs.v {
        if v != 0 {
            d.add_arc(0, v);
            let _ = d.remove_arc(0, v);
        }
    }
    for &(u, v) in &abs.a {
        d.add_arc(u, v);
    }
    if !abs.v.contains(&0) {
        d = d.filter_vertices(|x| x != 0);
    }
    d
}

/// Reads a real digraph through `vertices()`, `arcs()` (and
/// `arcs_weighted()`), checking on the way what C01 requires of those
/// iterators: strictly ascending, no self-loop, endpoints in V, and
/// `order()`/`size()` consistent. Returns the observed abstract digraph.
pub fn observe<R: Rep>(d: &R) -> Result<Abs, String> {
    let vs: Vec<usize> = guarded(|| d.vertices().collect()).map_err(|e| format!("vertices() panicked: {e}"))?;
    if !vs.windows(2).all(|w| w[0] < w[1]) {
        return Err(format!("vertices() not strictly ascending: {vs:?}"));
    }
    let arcs: Vec<(usize, usize)> = guarded(|| d.arcs().collect()).map_err(|e| format!("arcs() panicked: {e}"))?;
    if !arcs.windows(2).all(|w| w[0] < w[1]) {
        return Err(format!("arcs() not strictly ascending (lexicographic): {arcs:?}"));
    }
    let v: BTreeSet<usize> = vs.iter().copied().collect();
    for &(a, b) in &arcs {
        if a == b {
            return Err(format!("self-loop {a}->{b} observable through arcs()"));
        }
        if !v.contains(&a) || !v.contains(&b) {
            return Err(format!("arc {a}->{b} has an endpoint outside V = {vs:?}"));
        }
    }
    let order = guarded(|| d.order()).map_err(|e| format!("order() panicked: {e}"))?;
    if order != vs.len() {
        return Err(format!("order() = {order} but vertices() lists {} vertices", vs.len()));
    }
    let size = guarded(|| d.size()).map_err(|e| format!("size() panicked: {e}"))?;
    if size != arcs.len() {
        return Err(format!("size() = {size} but arcs() lists {} arcs", arcs.len()));
    }
    let mut abs = Abs { v, a: arcs.iter().copied().collect(), w: BTreeMap::new() };
    if R::WEIGHTED {
        let w = guarded(|| d.observed_weights().unwrap()).map_err(|e| format!("arcs_weighted() panicked: {e}"))?;
        if w.keys().copied().collect::<BTreeSet<_>>() != abs.a {
            return Err("arcs_weighted() lists different arcs than arcs()".to_string());
        }
        abs.w = w;
    }
    Ok(abs)
}

/// Compares an observed digraph with the expected abstract one (weights only
/// when the representation carries them).
pub fn same<R: Rep>(obs: &Abs, want: &Abs) -> bool {
    if obs.v != want.v || obs.a != want.a {
        return false;
    }
    if R::WEIGHTED {
        for &(u, v) in &want.a {
            if obs.w.get(&(u, v)).copied().unwrap_or(1) != want.weight(u, v) {
                return false;
            }
        }
    }
    true
}

#[macro_export]
macro_rules! for_unweighted_reps {
    ($f:ident $(, $arg:expr)*) => {{
        $f::<$crate::reps::AL>($($arg),*);
        $f::<$crate::reps::AM>($($arg),*);
        $f::<$crate::reps::AX>($($arg),*);
        $f::<$crate::reps::EL>($($arg),*);
    }};
}

#[macro_export]
macro_rules! for_all_reps {
    ($f:ident $(, $arg:expr)*) => {{
        $f::<$crate::reps::AL>($($arg),*);
        $f::<$crate::reps::AM>($($arg),*);
        $f::<$crate::reps::AX>($($arg),*);
        $f::<$crate::reps::EL>($($arg),*);
        $f::<$crate::reps::WU>($($arg),*);
    }};
}
