//! One module per property.

use crate::core::{CaseId, Report};
use crate::Check;
use serde_json::{json, Value};

pub mod c02;

pub const ALL: &[&str] = &["C02"];

pub fn report(prop: &str, tier: &str, seed: u64, rule: &str, assumptions: &[&str], bounds: Value) -> Report {
    Report {
        prop: prop.to_string(),
        tier: tier.to_string(),
        seed,
        rule: rule.to_string(),
        assumptions: assumptions.iter().map(|s| s.to_string()).collect(),
        bounds,
        extra: json!({}),
    }
}

pub fn build(prop: &str, tier: &str, seed: u64) -> Option<Check> {
    match prop {
        "C02" => Some(c02::build(tier, seed)),
        _ => None,
    }
}

pub fn replay_post(_prop: &str, _case: &CaseId, _file: &Value) -> i32 {
    eprintln!("gv: no post-phase replay for this property");
    2
}
