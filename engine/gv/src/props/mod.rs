//! One module per property.

use crate::core::{CaseId, Report};
use crate::Check;
use serde_json::{json, Value};

pub mod c02;
pub mod conf;
pub mod fam;
pub mod gens;
pub mod hist;
pub mod huge;
pub mod large;
pub mod mem;
pub mod misc;
pub mod ops;
pub mod trav;
pub mod weighted;

pub const ALL: &[&str] = &["C01", "C02", "C03", "C04", "C05", "C06", "C07", "C08", "C09", "C10", "C11", "C12", "C13", "C14", "C15", "C16", "C17", "C18", "C19", "C20"];

pub fn report(prop: &str, tier: &str, seed: u64, rule: &str, assumptions: &[&str], bounds: Value) -> Report {
    Report {
        prop: prop.to_string(),
        tier: tier.to_string(),
        seed,
        rule: rule.to_string(),
        assumptions: assumptions.iter().map(|s| s.to_string()).collect(),
        bounds,
        extra: json!({}),
    }
}

pub fn build(prop: &str, tier: &str, seed: u64) -> Option<Check> {
    let mut c = build_inner(prop, tier, seed)?;
    if c.spaces.iter().any(|s| s.kind.ends_with(".huge")) {
        c.report.rule.push_str(&format!(" Beyond 2^16: a fixed catalogue of eight shapes at order {} (paths, trees, stars, comb, hops of 256) with sources around 65 535 / 65 536, judged against array-based references (props/huge.rs).", huge::HUGE_N));
        c.report.assumptions.push(format!("orders between the large catalogue (≤ 300) and {} are not explored", huge::HUGE_N));
    }
    Some(c)
}

fn build_inner(prop: &str, tier: &str, seed: u64) -> Option<Check> {
    match prop {
        "C01" => Some(hist::c01(tier, seed)),
        "C20" => Some(hist::c20(tier, seed)),
        "C02" => Some(c02::build(tier, seed)),
        "C03" => Some(weighted::c03(tier, seed)),
        "C04" => Some(trav::c04(tier, seed)),
        "C05" => Some(weighted::c05(tier, seed)),
        "C06" => Some(trav::c06(tier, seed)),
        "C07" => Some(weighted::c07(tier, seed)),
        "C08" => Some(weighted::c08(tier, seed)),
        "C09" => Some(trav::c09(tier, seed)),
        "C10" => Some(trav::c10(tier, seed)),
        "C11" => Some(ops::c11(tier, seed)),
        "C12" => Some(ops::c12(tier, seed)),
        "C13" => Some(mem::c13(tier, seed)),
        "C14" => Some(gens::c14(tier, seed)),
        "C15" => Some(gens::c15(tier, seed)),
        "C16" => Some(gens::c16(tier, seed)),
        "C17" => Some(conf::c17(tier, seed)),
        "C18" => Some(misc::c18(tier, seed)),
        "C19" => Some(misc::c19(tier, seed)),
        _ => None,
    }
}

pub fn replay_post(prop: &str, case: &CaseId, file: &Value) -> i32 {
    if case.kind.starts_with("post:hist") {
        crate::core::silence_panics();
        let rc = hist::replay(file);
        if rc == 1 {
            println!("VIOLATION property={prop} replay={}", std::env::args().nth(3).unwrap_or_default());
        }
        return rc;
    }
    if case.kind == "post:mem" {
        let rc = mem::replay(case);
        if rc == 1 {
            println!("VIOLATION property={prop} replay={}", std::env::args().nth(3).unwrap_or_default());
        }
        return rc;
    }
    if case.kind == "post:sched" {
        let path = std::env::args().nth(3).unwrap_or_default();
        let st = std::process::Command::new("/verif/engine/target-sched/release/gv").args(["sched-replay", &path]).status();
        let rc = st.ok().and_then(|s| s.code()).unwrap_or(2);
        if rc == 1 {
            println!("VIOLATION property={prop} replay={path}");
        }
        return rc;
    }
    if case.kind == "post:affinity" {
        let mut ctx = crate::core::Ctx::default();
        let ks: Vec<usize> = case.p.iter().map(|&k| k as usize).collect();
        let _ = conf::affinity_only(&ks, &mut ctx);
        if ctx.fails.is_empty() {
            println!("affinity conformance for k = {ks:?}: digests equal");
            return 0;
        }
        for f in &ctx.fails {
            println!("  {}", f.what);
        }
        println!("VIOLATION property={prop} replay={}", std::env::args().nth(3).unwrap_or_default());
        return 1;
    }
    eprintln!("gv: no post-phase replay for this case kind");
    2
}
