//! One module per property.

use crate::core::{CaseId, Report};
use crate::Check;
use serde_json::{json, Value};

pub mod c02;
pub mod gens;
pub mod misc;
pub mod ops;
pub mod trav;
pub mod weighted;

pub const ALL: &[&str] = &["C02", "C03", "C04", "C05", "C06", "C07", "C08", "C09", "C10", "C11", "C12", "C14", "C15", "C16", "C18", "C19"];

pub fn report(prop: &str, tier: &str, seed: u64, rule: &str, assumptions: &[&str], bounds: Value) -> Report {
    Report {
        prop: prop.to_string(),
        tier: tier.to_string(),
        seed,
        rule: rule.to_string(),
        assumptions: assumptions.iter().map(|s| s.to_string()).collect(),
        bounds,
        extra: json!({}),
    }
}

pub fn build(prop: &str, tier: &str, seed: u64) -> Option<Check> {
    match prop {
        "C02" => Some(c02::build(tier, seed)),
        "C03" => Some(weighted::c03(tier, seed)),
        "C04" => Some(trav::c04(tier, seed)),
        "C05" => Some(weighted::c05(tier, seed)),
        "C06" => Some(trav::c06(tier, seed)),
        "C07" => Some(weighted::c07(tier, seed)),
        "C08" => Some(weighted::c08(tier, seed)),
        "C09" => Some(trav::c09(tier, seed)),
        "C10" => Some(trav::c10(tier, seed)),
        "C11" => Some(ops::c11(tier, seed)),
        "C12" => Some(ops::c12(tier, seed)),
        "C14" => Some(gens::c14(tier, seed)),
        "C15" => Some(gens::c15(tier, seed)),
        "C16" => Some(gens::c16(tier, seed)),
        "C18" => Some(misc::c18(tier, seed)),
        "C19" => Some(misc::c19(tier, seed)),
        _ => None,
    }
}

pub fn replay_post(_prop: &str, _case: &CaseId, _file: &Value) -> i32 {
    eprintln!("gv: no post-phase replay for this property");
    2
}
