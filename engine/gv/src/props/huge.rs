//! Orders beyond 2^16 for the routines whose cost is (near) linear: a counter, an index, a depth
//! or a distance kept in a 16-bit type, or a buffer sized for at most 65 536 entries, cannot show
//! below that. A fixed catalogue (shape × listed sources), enumerated completely; the references
//! are array-based (the set-based ones of refm.rs are quadratic at this size).
//!
//! Not here: Tarjan on deep shapes (its recursion depth equals the path length on the unchanged
//! tree), Johnson75, BellmanFordMoore and FloydWarshall (quadratic or worse at this order),
//! AdjacencyMatrix (order² bits).

use crate::core::{guarded, Ctx, Space};
use graaf::algo::predecessor_tree::PredecessorTree;
use graaf::*;
use serde_json::json;
use std::collections::{BinaryHeap, VecDeque};

pub const HUGE_N: usize = 66_000;

struct Shape {
    name: &'static str,
    out: Vec<Vec<usize>>,
    /// every vertex has at most one in-arc and no circuit exists (an out-forest): a lazy-stack DFS
    /// never pops an already visited vertex, so the recorded DFS finding cannot interfere
    forest: bool,
}

fn shapes() -> Vec<Shape> {
    let n = HUGE_N;
    let mk = |name: &'static str, arcs: Vec<(usize, usize)>, forest: bool| {
        let mut out = vec![Vec::new(); n];
        for (u, v) in arcs {
            if u != v && u < n && v < n {
                out[u].push(v);
            }
        }
        for r in &mut out {
            r.sort_unstable();
            r.dedup();
        }
        Shape { name, out, forest }
    };
    vec![
        mk("path", (0..n - 1).map(|u| (u, u + 1)).collect(), true),
        mk("reverse path", (0..n - 1).map(|u| (u + 1, u)).collect(), true),
        mk("star out", (1..n).map(|u| (0, u)).collect(), true),
        mk("binary tree", (1..n).map(|u| ((u - 1) / 2, u)).collect(), true),
        mk("comb: spine of 300 with teeth of 219", (1..n).map(|u| if u % 220 == 0 { (u - 220, u) } else { (u - 1, u) }).collect(), true),
        mk("star both", (1..n).flat_map(|u| [(0, u), (u, 0)]).collect(), false),
        mk("binary tree with back arcs to the root", (1..n).flat_map(|u| [((u - 1) / 2, u), (u, 0)]).collect(), false),
        mk("path with hops of 256", (0..n).flat_map(|u| [(u, u + 1), (u, u + 256)]).collect(), false),
    ]
}

fn levels(out: &[Vec<usize>], srcs: &[usize]) -> Vec<usize> {
    let mut lv = vec![usize::MAX; out.len()];
    let mut q = VecDeque::new();
    for &s in srcs {
        if lv[s] == usize::MAX {
            lv[s] = 0;
            q.push_back(s);
        }
    }
    while let Some(u) = q.pop_front() {
        for &v in &out[u] {
            if lv[v] == usize::MAX {
                lv[v] = lv[u] + 1;
                q.push_back(v);
            }
        }
    }
    lv
}

fn source_sets() -> Vec<Vec<usize>> {
    let n = HUGE_N;
    vec![vec![0], vec![n - 1], vec![n / 2], vec![65_535], vec![65_536], vec![n - 1, 0]]
}

fn build_al(s: &Shape) -> AdjacencyList {
    let mut d = AdjacencyList::empty(HUGE_N);
    for (u, r) in s.out.iter().enumerate() {
        for &v in r {
            d.add_arc(u, v);
        }
    }
    d
}

fn weight(u: usize, v: usize) -> usize {
    1 + (u * 7 + v * 3) % 5
}

fn build_wu(s: &Shape) -> AdjacencyListWeighted<usize> {
    let mut d = AdjacencyListWeighted::<usize>::empty(HUGE_N);
    for (u, r) in s.out.iter().enumerate() {
        for &v in r {
            d.add_arc_weighted(u, v, weight(u, v));
        }
    }
    d
}

pub fn space(prop: &'static str) -> Space {
    let kind = match prop {
        "C03" => "c03.huge",
        "C04" => "c04.huge",
        "C05" => "c05.huge",
        "C06" => "c06.huge",
        "C09" => "c09.huge",
        _ => "c19.huge",
    };
    let nshapes = shapes().len() as u64;
    Space::new(kind, vec![HUGE_N as u64], nshapes, format!("order {HUGE_N} (beyond 2^16): path, reverse path, star, binary tree, comb, star both, tree with back arcs, path with hops of 256; sources {{0}}, {{n-1}}, {{n/2}}, {{65535}}, {{65536}}, {{n-1, 0}}; array-based references"), move |idx, ctx| {
        let sh = shapes().swap_remove(idx as usize);
        match prop {
            "C03" => c03(&sh, ctx),
            "C04" => c04(&sh, ctx),
            "C05" => c05(&sh, ctx),
            "C06" => c06(&sh, ctx),
            "C09" => c09(&sh, ctx),
            _ => c19(&sh, ctx),
        }
        ctx.nontrivial();
        ctx.sample(|| json!({"order": HUGE_N, "shape": sh.name}));
    })
}

fn c04(sh: &Shape, ctx: &mut Ctx) {
    let d = build_al(sh);
    let n = HUGE_N;
    for srcs in source_sets() {
        let lv = levels(&sh.out, &srcs);
        let reach = lv.iter().filter(|&&l| l != usize::MAX).count();
        let det = || json!({"order": n, "shape": sh.name, "sources": srcs});
        ctx.execs_n(3);
        let r = guarded(|| {
            let a: Vec<usize> = Bfs::new(&d, srcs.clone().into_iter()).collect();
            let b: Vec<(usize, usize)> = BfsDist::new(&d, srcs.clone().into_iter()).collect();
            let c = BfsDist::new(&d, srcs.clone().into_iter()).distances();
            (a, b, c)
        });
        let (a, b, c) = match r {
            Ok(x) => x,
            Err(e) => {
                ctx.fail(format!("Bfs / BfsDist at order {n} panicked: {e}"), det());
                return;
            }
        };
        let mut seen = vec![false; n];
        let mut last = 0;
        let mut bad: Option<String> = None;
        for &v in &a {
            if v >= n || seen[v] || lv[v] == usize::MAX || lv[v] < last {
                bad = Some(format!("Bfs yielded {v} (repeated, unreachable or out of level order)"));
                break;
            }
            seen[v] = true;
            last = lv[v];
        }
        if bad.is_none() && a.len() != reach {
            bad = Some(format!("Bfs yielded {} vertices, {} are reachable", a.len(), reach));
        }
        let mut seen = vec![false; n];
        let mut last = 0;
        for &(v, w) in &b {
            if bad.is_some() {
                break;
            }
            if v >= n || seen[v] || lv[v] != w || w < last {
                bad = Some(format!("BfsDist yielded ({v}, {w}); the hop distance is {}", lv.get(v).copied().unwrap_or(usize::MAX)));
                break;
            }
            seen[v] = true;
            last = w;
        }
        if bad.is_none() && b.len() != reach {
            bad = Some(format!("BfsDist yielded {} vertices, {} are reachable", b.len(), reach));
        }
        if bad.is_none() && c != lv {
            let v = (0..n).find(|&v| c.get(v) != Some(&lv[v])).unwrap_or(0);
            bad = Some(format!("BfsDist::distances()[{v}] = {:?}, the hop distance is {}", c.get(v), lv[v]));
        }
        if let Some(b) = bad {
            ctx.fail(b, det());
            return;
        }
    }
}

fn c05(sh: &Shape, ctx: &mut Ctx) {
    let d = build_al(sh);
    let n = HUGE_N;
    for srcs in source_sets() {
        let lv = levels(&sh.out, &srcs);
        let det = || json!({"order": n, "shape": sh.name, "sources": srcs});
        ctx.exec();
        let pred = match guarded(|| BfsPred::new(&d, srcs.clone().into_iter()).predecessors().pred) {
            Ok(p) => p,
            Err(e) => {
                ctx.fail(format!("BfsPred::predecessors at order {n} panicked: {e}"), det());
                return;
            }
        };
        if pred.len() != n {
            ctx.fail("BfsPred::predecessors(): wrong length", det());
            return;
        }
        for v in 0..n {
            let ok = match pred[v] {
                None => srcs.contains(&v) || lv[v] == usize::MAX,
                Some(u) => !srcs.contains(&v) && u < n && lv[u] != usize::MAX && lv[v] == lv[u] + 1 && sh.out[u].binary_search(&v).is_ok(),
            };
            if !ok {
                ctx.fail(format!("BfsPred::predecessors()[{v}] = {:?} is not a shortest-path-tree entry (hop distance {})", pred[v], lv[v]), det());
                return;
            }
        }
        // the farthest vertex, the vertices around 2^16 and an unreachable one as targets
        let far = (0..n).filter(|&v| lv[v] != usize::MAX).max_by_key(|&v| lv[v]).unwrap();
        for t in [far, 65_535, 65_536, n / 3] {
            ctx.exec();
            let r = guarded(|| BfsPred::new(&d, srcs.clone().into_iter()).shortest_path(|v| v == t));
            let ok = match &r {
                Err(_) => false,
                Ok(None) => lv[t] == usize::MAX,
                Ok(Some(p)) => lv[t] != usize::MAX && p.len() == lv[t] + 1 && srcs.contains(&p[0]) && *p.last().unwrap() == t && p.windows(2).all(|w| w[0] < n && sh.out[w[0]].binary_search(&w[1]).is_ok()),
            };
            if !ok {
                ctx.fail(format!("BfsPred::shortest_path(== {t}) is not a shortest walk from a source (hop distance {:?}): {}", lv[t], match &r { Ok(Some(p)) => format!("a sequence of {} vertices", p.len()), Ok(None) => "None".to_string(), Err(e) => format!("panic: {e}") }), det());
                return;
            }
        }
        // PredecessorTree::search along the BFS tree (single source: the chain from the farthest
        // vertex back to the source has hop distance + 1 vertices)
        if srcs.len() == 1 {
            ctx.exec();
            let tree = PredecessorTree::from(pred.clone());
            let s0 = srcs[0];
            match guarded(|| tree.search(far, s0)) {
                Ok(Some(p)) if p.len() == lv[far] + 1 && p[0] == far && *p.last().unwrap() == s0 => {}
                other => {
                    ctx.fail(format!("PredecessorTree::search({far}, {s0}) on the BFS tree returned {:?}; the chain has {} vertices", other.map(|o| o.map(|p| p.len())), lv[far] + 1), det());
                    return;
                }
            }
        }
    }
}

fn c06(sh: &Shape, ctx: &mut Ctx) {
    if !sh.forest {
        ctx.skip();
        return;
    }
    let d = build_al(sh);
    let n = HUGE_N;
    let mut parent = vec![usize::MAX; n];
    for (u, r) in sh.out.iter().enumerate() {
        for &v in r {
            parent[v] = u;
        }
    }
    for srcs in source_sets() {
        // in a forest a later source may lie below an earlier one: keep the arrangements whose
        // sources are pairwise unreachable (no stale pops at all)
        let lv0 = levels(&sh.out, &srcs[..1]);
        if srcs.len() > 1 && (lv0[srcs[1]] != usize::MAX || levels(&sh.out, &srcs[1..])[srcs[0]] != usize::MAX) {
            continue;
        }
        let lv = levels(&sh.out, &srcs);
        let reach = lv.iter().filter(|&&l| l != usize::MAX).count();
        let det = || json!({"order": n, "shape": sh.name, "sources_in_order": srcs});
        ctx.execs_n(4);
        let r = guarded(|| {
            let a: Vec<usize> = Dfs::new(&d, srcs.clone().into_iter()).collect();
            let b: Vec<(usize, usize)> = DfsDist::new(&d, srcs.clone().into_iter()).collect();
            let c: Vec<(Option<usize>, usize)> = DfsPred::new(&d, srcs.clone().into_iter()).collect();
            let t = DfsPred::new(&d, srcs.clone().into_iter()).predecessors().pred;
            (a, b, c, t)
        });
        let (a, b, c, t) = match r {
            Ok(x) => x,
            Err(e) => {
                ctx.fail(format!("Dfs / DfsDist / DfsPred at order {n} panicked: {e}"), det());
                return;
            }
        };
        // depth-first preorder in a forest: v is a root (a source) or a child of the deepest vertex
        // of the current path that still has an unyielded child
        let check = |seq: &[(Option<Option<usize>>, usize, Option<usize>)], who: &str| -> Option<String> {
            let mut remaining: Vec<usize> = sh.out.iter().map(Vec::len).collect();
            let mut yielded = vec![false; n];
            let mut path: Vec<usize> = Vec::new();
            for &(p, v, depth) in seq {
                if v >= n || yielded[v] || lv[v] == usize::MAX {
                    return Some(format!("{who} yielded {v} (repeated or unreachable)"));
                }
                while let Some(&top) = path.last() {
                    if remaining[top] == 0 {
                        path.pop();
                    } else {
                        break;
                    }
                }
                let want_parent = path.last().copied();
                match want_parent {
                    None => {
                        if !srcs.contains(&v) {
                            return Some(format!("{who} yielded {v} as a root, but it is not a source"));
                        }
                    }
                    Some(top) => {
                        if parent[v] != top {
                            return Some(format!("{who} yielded {v}, which is not an out-neighbour of {top}, the deepest vertex of the search path with an unyielded out-neighbour"));
                        }
                        remaining[top] -= 1;
                    }
                }
                if let Some(p) = p {
                    if p != want_parent {
                        return Some(format!("{who} reported predecessor {p:?} for {v}, expected {want_parent:?}"));
                    }
                }
                if let Some(dp) = depth {
                    if dp != path.len() {
                        return Some(format!("{who} reported depth {dp} for {v}, expected {}", path.len()));
                    }
                }
                yielded[v] = true;
                path.push(v);
            }
            if seq.len() != reach {
                return Some(format!("{who} yielded {} vertices, {} are reachable", seq.len(), reach));
            }
            None
        };
        let sa: Vec<_> = a.iter().map(|&v| (None, v, None)).collect();
        let sb: Vec<_> = b.iter().map(|&(v, w)| (None, v, Some(w))).collect();
        let sc: Vec<_> = c.iter().map(|&(p, v)| (Some(p), v, None)).collect();
        let mut bad = check(&sa, "Dfs").or_else(|| check(&sb, "DfsDist")).or_else(|| check(&sc, "DfsPred"));
        if bad.is_none() {
            let mut want = vec![None; n];
            for &(p, v) in &c {
                want[v] = p;
            }
            if t != want {
                bad = Some("DfsPred::predecessors() is not the forest reported by iterating DfsPred".to_string());
            }
        }
        if let Some(b) = bad {
            ctx.fail(b, det());
            return;
        }
    }
}

fn c03(sh: &Shape, ctx: &mut Ctx) {
    let d = build_wu(sh);
    let n = HUGE_N;
    for srcs in source_sets() {
        let mut dist = vec![usize::MAX; n];
        let mut heap = BinaryHeap::new();
        for &s in &srcs {
            dist[s] = 0;
            heap.push((std::cmp::Reverse(0usize), s));
        }
        while let Some((std::cmp::Reverse(du), u)) = heap.pop() {
            if du > dist[u] {
                continue;
            }
            for &v in &sh.out[u] {
                let c = du + weight(u, v);
                if c < dist[v] {
                    dist[v] = c;
                    heap.push((std::cmp::Reverse(c), v));
                }
            }
        }
        let reach = dist.iter().filter(|&&x| x != usize::MAX).count();
        let det = || json!({"order": n, "shape": sh.name, "sources": srcs, "weights": "1 + (7u + 3v) mod 5"});
        ctx.execs_n(3);
        let r = guarded(|| {
            let a: Vec<usize> = Dijkstra::new(&d, srcs.clone().into_iter()).collect();
            let b: Vec<(usize, usize)> = DijkstraDist::new(&d, srcs.clone().into_iter()).collect();
            let c = DijkstraDist::new(&d, srcs.clone().into_iter()).distances();
            let p = DijkstraPred::new(&d, srcs.clone().into_iter()).predecessors().pred;
            (a, b, c, p)
        });
        let (a, b, c, p) = match r {
            Ok(x) => x,
            Err(e) => {
                ctx.fail(format!("Dijkstra / DijkstraDist / DijkstraPred at order {n} panicked: {e}"), det());
                return;
            }
        };
        let mut bad: Option<String> = None;
        let mut seen = vec![false; n];
        let mut last = 0;
        for &v in &a {
            if v >= n || seen[v] || dist[v] == usize::MAX || dist[v] < last {
                bad = Some(format!("Dijkstra yielded {v} (repeated, unreachable or out of distance order)"));
                break;
            }
            seen[v] = true;
            last = dist[v];
        }
        if bad.is_none() && a.len() != reach {
            bad = Some(format!("Dijkstra yielded {} vertices, {} are reachable", a.len(), reach));
        }
        let mut seen = vec![false; n];
        let mut last = 0;
        for &(v, w) in &b {
            if bad.is_some() {
                break;
            }
            if v >= n || seen[v] || dist[v] != w || w < last {
                bad = Some(format!("DijkstraDist yielded ({v}, {w}); the shortest distance is {}", dist.get(v).copied().unwrap_or(usize::MAX)));
                break;
            }
            seen[v] = true;
            last = w;
        }
        if bad.is_none() && b.len() != reach {
            bad = Some(format!("DijkstraDist yielded {} vertices, {} are reachable", b.len(), reach));
        }
        if bad.is_none() && c != dist {
            let v = (0..n).find(|&v| c.get(v) != Some(&dist[v])).unwrap_or(0);
            bad = Some(format!("DijkstraDist::distances()[{v}] = {:?}, the shortest distance is {}", c.get(v), dist[v]));
        }
        if bad.is_none() {
            for v in 0..n {
                let ok = p.len() == n
                    && match p[v] {
                        None => srcs.contains(&v) || dist[v] == usize::MAX,
                        Some(u) => !srcs.contains(&v) && u < n && dist[u] != usize::MAX && sh.out[u].binary_search(&v).is_ok() && dist[u] + weight(u, v) == dist[v],
                    };
                if !ok {
                    bad = Some(format!("DijkstraPred::predecessors()[{v}] = {:?} is not a shortest-path-tree entry", p.get(v)));
                    break;
                }
            }
        }
        if let Some(b) = bad {
            ctx.fail(b, det());
            return;
        }
    }
}

fn c09(sh: &Shape, ctx: &mut Ctx) {
    // shallow shapes only: Tarjan::connect recurses once per vertex of a path
    let n = HUGE_N;
    let want_components = match sh.name {
        "star out" | "binary tree" => n,
        "star both" | "binary tree with back arcs to the root" => 1,
        _ => {
            ctx.skip();
            return;
        }
    };
    let d = build_al(sh);
    ctx.exec();
    match guarded(|| Tarjan::new(&d).components().to_vec()) {
        Err(e) => ctx.fail(format!("Tarjan at order {n} panicked: {e}"), json!({"shape": sh.name})),
        Ok(cs) => {
            let mut seen = vec![false; n];
            let mut total = 0usize;
            for c in &cs {
                for &v in c {
                    if v >= n || seen[v] {
                        ctx.fail(format!("Tarjan::components(): vertex {v} is repeated or not a vertex"), json!({"shape": sh.name}));
                        return;
                    }
                    seen[v] = true;
                    total += 1;
                }
            }
            if total != n || cs.len() != want_components || cs.iter().any(std::collections::BTreeSet::is_empty) {
                ctx.fail(format!("Tarjan::components() returned {} sets covering {total} vertices; the digraph has {want_components} strongly connected components on {n} vertices", cs.len()), json!({"shape": sh.name}));
            }
        }
    }
}

fn c19(sh: &Shape, ctx: &mut Ctx) {
    // predecessor vectors of length HUGE_N: the shape's arcs read backwards (child -> parent) for the
    // forests; for the others a chain, a chain closed into a cycle, and hops
    let n = HUGE_N;
    let pred: Vec<Option<usize>> = if sh.forest {
        let mut p = vec![None; n];
        for (u, r) in sh.out.iter().enumerate() {
            for &v in r {
                p[v] = Some(u);
            }
        }
        p
    } else {
        match sh.name {
            "star both" => (0..n).map(|v| Some((v + 1) % n)).collect(),                        // one cycle through everything
            "binary tree with back arcs to the root" => (0..n).map(|v| if v == 0 { Some(0) } else { Some(v - 1) }).collect(), // chain into a self-reference
            _ => (0..n).map(|v| if v + 256 < n { Some(v + 256) } else if v + 1 < n { Some(v + 1) } else { None }).collect(),
        }
    };
    let tree = PredecessorTree::from(pred.clone());
    let follow = |s: usize, t: usize| -> Option<Vec<usize>> {
        let mut seen = vec![false; n];
        let mut path = vec![s];
        let mut c = s;
        seen[s] = true;
        loop {
            if c == t {
                return Some(path);
            }
            match pred[c] {
                None => return None,
                Some(p) => {
                    if seen[p] {
                        return None;
                    }
                    seen[p] = true;
                    path.push(p);
                    c = p;
                }
            }
        }
    };
    for s in [0, 1, 255, 256, 65_535, 65_536, n / 2, n - 2, n - 1] {
        for t in [0, 1, 65_535, 65_536, n / 2, n - 1] {
            ctx.execs_n(2);
            let want = follow(s, t);
            let got = guarded(|| (tree.search(s, t), tree.search_by(s, |&v, _| v == t)));
            match got {
                Err(e) => {
                    ctx.fail(format!("PredecessorTree::search({s}, {t}) at length {n} panicked: {e}"), json!({"vector": sh.name}));
                    return;
                }
                Ok((a, b)) => {
                    if a != want || b != want {
                        ctx.fail(format!("PredecessorTree::search({s}, {t}) on a vector of length {n} returned {:?} / search_by {:?} vertices; following the links gives {:?}", a.as_ref().map(Vec::len), b.as_ref().map(Vec::len), want.as_ref().map(Vec::len)), json!({"vector": sh.name}));
                        return;
                    }
                }
            }
        }
    }
}
