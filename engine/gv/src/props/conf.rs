//! C17 — results never depend on the number of worker threads or their
//! interleaving. E-CONF: exhaustive sweep of the `available_parallelism`
//! seam; conformance of the seam with real CPU affinity (taskset); E-SCHED
//! through the schedule binary.

use crate::core::{guarded, CaseId, Ctx, Fail, Space};
use crate::props::c02::family;
use crate::props::gens::closed_form;
use crate::props::ops::near_complete;
use crate::refm::Abs;
use crate::reps::*;
use crate::spacesx::*;
use crate::Check;
use graaf::*;
use serde_json::{json, Value};
use std::collections::hash_map::DefaultHasher;
use std::hash::{Hash, Hasher};
use std::sync::Arc;

/// par code: 0 = Err answer, k = Ok(k)
fn set_par(code: usize) -> String {
    if code == 0 {
        par_err();
        "Err".into()
    } else {
        par(code);
        code.to_string()
    }
}

/// The six deterministic threaded routines on one AdjacencyList input pair.
fn det_routines(a: &Abs, b: &Abs, pinfo: &str, ctx: &mut Ctx) {
    let det = || json!({"lhs": a.arcs_json(), "rhs": b.arcs_json(), "available_parallelism": pinfo});
    let da = mk::<AL>(a);
    let db = mk::<AL>(b);
    macro_rules! cmpd {
        ($name:expr, $real:expr, $want:expr) => {{
            ctx.exec();
            match guarded(|| $real) {
                Err(e) => ctx.fail(format!("{} panicked with available_parallelism = {pinfo}: {e}", $name), det()),
                Ok(d) => match observe(&d) {
                    Ok(o) if same::<AL>(&o, &$want) => {}
                    Ok(o) => ctx.fail(format!("{} with available_parallelism = {pinfo} returned {}, single-threaded definition gives {}", $name, o.arcs_json(), $want.arcs_json()), det()),
                    Err(e) => ctx.fail(format!("{} with available_parallelism = {pinfo} returned an invalid digraph: {e}", $name), det()),
                },
            }
        }};
    }
    cmpd!("AdjacencyList::complement", da.complement(), a.complement());
    cmpd!("AdjacencyList::union", da.union(&db), a.union(b));
    cmpd!("AdjacencyList::complete", AL::complete(a.n()), closed_form("complete", a.n()));
    ctx.exec();
    let want: Vec<usize> = (0..a.n()).map(|v| a.indeg(v) + a.outdeg(v)).collect();
    match guarded(|| da.degree_sequence().collect::<Vec<_>>()) {
        Ok(g) if g == want => {}
        Ok(g) => ctx.fail(format!("AdjacencyList::degree_sequence with available_parallelism = {pinfo} returned {g:?}, degrees are {want:?}"), det()),
        Err(e) => ctx.fail(format!("AdjacencyList::degree_sequence panicked with available_parallelism = {pinfo}: {e}"), det()),
    }
    ctx.exec();
    match guarded(|| da.is_semicomplete()) {
        Ok(g) if g == a.is_semicomplete() => {}
        Ok(g) => ctx.fail(format!("AdjacencyList::is_semicomplete with available_parallelism = {pinfo} returned {g}, definition gives {}", a.is_semicomplete()), det()),
        Err(e) => ctx.fail(format!("AdjacencyList::is_semicomplete panicked with available_parallelism = {pinfo}: {e}"), det()),
    }
    // AdjacencyMap::union on the same operands
    ctx.exec();
    let (ma, mb) = (mk::<AM>(a), mk::<AM>(b));
    match guarded(|| ma.union(&mb)) {
        Err(e) => ctx.fail(format!("AdjacencyMap::union panicked with available_parallelism = {pinfo}: {e}"), det()),
        Ok(d) => match observe(&d) {
            Ok(o) if same::<AM>(&o, &a.union(b)) => {}
            Ok(o) => ctx.fail(format!("AdjacencyMap::union with available_parallelism = {pinfo} returned {}, definition gives {}", o.arcs_json(), a.union(b).arcs_json()), det()),
            Err(e) => ctx.fail(format!("AdjacencyMap::union with available_parallelism = {pinfo} returned an invalid digraph: {e}"), det()),
        },
    }
}

fn c17_small_space(maxpar: usize) -> Space {
    // every digraph of order ≤ 3 (69) paired with a rotating partner, × par 0..=maxpar
    let mut pool: Vec<Abs> = Vec::new();
    for n in 1..=3 {
        for m in 0..dcount(n) {
            pool.push(Abs::from_mask(n, m));
        }
    }
    let k = pool.len() as u64;
    let pool = Arc::new(pool);
    Space::new("c17.small", vec![maxpar as u64], k * k * (maxpar as u64 + 1), format!("the six deterministic threaded routines on every ordered pair of digraphs of orders 1..=3 × available_parallelism ∈ {{Err, 1..={maxpar}}}"), move |idx, ctx| {
        let p = (idx % (maxpar as u64 + 1)) as usize;
        let i = idx / (maxpar as u64 + 1);
        let (a, b) = (&pool[(i % k) as usize], &pool[(i / k) as usize]);
        let pinfo = set_par(p);
        det_routines(a, b, &pinfo, ctx);
        if p > 1 && a.n() > 1 {
            ctx.nontrivial();
        }
        ctx.sample(|| json!({"lhs": a.arcs_json(), "rhs": b.arcs_json(), "available_parallelism": pinfo}));
    })
    .procs()
}

fn big_inputs(n: usize) -> Vec<(String, Abs)> {
    let mut v = family(n);
    if n >= 3 {
        // near misses at the first, a middle and the last pair
        for (a, b) in [(0, 1), (n / 2, n - 1), (n - 2, n - 1)] {
            if a < b {
                for kind in 0..4 {
                    v.push(near_complete(n, kind, a, b));
                }
            }
        }
    }
    v
}

fn c17_family_space(orders: &'static [usize], maxpar: usize, extra: &'static [usize]) -> Space {
    let mut cases: Vec<(usize, usize)> = Vec::new();
    for &n in orders {
        for f in 0..big_inputs(n).len() {
            cases.push((n, f));
        }
    }
    let mut pars: Vec<usize> = (0..=maxpar).collect();
    pars.extend_from_slice(extra);
    let np = pars.len() as u64;
    let cases = Arc::new(cases);
    let pars = Arc::new(pars);
    let pars2 = pars.clone();
    Space::new("c17.family", vec![orders.iter().map(|&x| x as u64).sum(), maxpar as u64, extra.len() as u64], cases.len() as u64 * np, format!("the six deterministic threaded routines on structured digraphs (empty, complete, circuit, path, star, transitive, band, mod-3, near-misses at the first/middle/last pair) of orders {orders:?} × available_parallelism ∈ {{Err, 1..={maxpar}}} ∪ {extra:?}; row count below, equal, just above and far above the thread count"), move |idx, ctx| {
        let p = pars2[(idx % np) as usize];
        let (n, f) = cases[(idx / np) as usize];
        let inputs = big_inputs(n);
        let (name, a) = &inputs[f];
        let (_, b) = &inputs[(f + 3) % inputs.len()];
        let pinfo = set_par(p);
        det_routines(a, b, &pinfo, ctx);
        if p >= 1 && n > p && n % n.div_ceil(p) != 0 {
            ctx.nontrivial();
            ctx.tag("rows_above_threads_with_ragged_last_chunk");
        } else if p > n {
            ctx.tag("more_threads_than_rows");
        }
        ctx.sample(|| json!({"order": n, "family": name, "available_parallelism": pinfo}));
    })
    .procs()
}

fn c17_am_union_space(universe: usize, maxpar: usize) -> Space {
    // key sets K1, K2 ⊆ 0..universe (non-empty), rows: k -> {the other keys of the set with k+x odd}
    let sets = (1u64 << universe) - 1;
    Space::new("c17.am_union_keys", vec![universe as u64, maxpar as u64], sets * sets, format!("AdjacencyMap::union over every ordered pair of non-empty key sets K1, K2 ⊆ 0..{universe} (disjoint, overlapping, equal, interleaved; hence equal keys on every merge-path partition boundary) × available_parallelism 1..={maxpar}"), move |idx, ctx| {
        let (m1, m2) = (1 + idx % sets, 1 + idx / sets);
        let mkabs = |m: u64, flip: usize| {
            let vs = subset_vec(m, universe);
            let mut a = Abs::on(vs.iter().copied());
            for &u in &vs {
                for &v in &vs {
                    if u != v && (u + v + flip) % 2 == 1 && u < v {
                        a.a.insert((u, v));
                    } else if u != v && flip == 1 && (u * v) % 3 == 1 {
                        a.a.insert((u, v));
                    }
                }
            }
            a
        };
        let (a, b) = (mkabs(m1, 0), mkabs(m2, 1));
        let (da, db) = (mk_am(&a), mk_am(&b));
        let want = a.union(&b);
        for p in 1..=maxpar {
            par(p);
            ctx.exec();
            let det = || json!({"lhs": a.arcs_json(), "rhs": b.arcs_json(), "available_parallelism": p});
            match guarded(|| da.union(&db)) {
                Err(e) => ctx.fail(format!("AdjacencyMap::union panicked with {p} threads: {e}"), det()),
                Ok(d) => match observe(&d) {
                    Ok(o) if same::<AM>(&o, &want) => {}
                    Ok(o) => ctx.fail(format!("AdjacencyMap::union with {p} threads returned {}, definition gives {}", o.arcs_json(), want.arcs_json()), det()),
                    Err(e) => ctx.fail(format!("AdjacencyMap::union with {p} threads returned an invalid digraph: {e}"), det()),
                },
            }
        }
        let inter = (m1 & m2).count_ones();
        if inter > 0 && m1 != m2 {
            ctx.nontrivial();
        }
        ctx.sample(|| json!({"K1": subset_vec(m1, universe), "K2": subset_vec(m2, universe), "available_parallelism": format!("1..={maxpar}")}));
    })
    .procs()
}

fn c17_seeded_space(maxn: usize, maxpar: usize) -> Space {
    Space::new("c17.seeded", vec![maxn as u64, maxpar as u64], (maxn * maxpar * 3) as u64, format!("AdjacencyMap::random_tournament / erdos_renyi (p = 0.3, 0.8) for every order 1..={maxn} × available_parallelism 1..={maxpar} × 3 seeds: valid and exactly repeatable within one configuration"), move |idx, ctx| {
        let n = 1 + (idx as usize) % maxn;
        let p = 1 + (idx as usize) / maxn % maxpar;
        let seed = [0u64, 41, u64::MAX][(idx as usize) / maxn / maxpar];
        par(p);
        let det = || json!({"order": n, "available_parallelism": p, "seed": seed});
        ctx.execs_n(2);
        match guarded(|| (AM::random_tournament(n, seed), AM::random_tournament(n, seed))) {
            Err(e) => ctx.fail(format!("AdjacencyMap::random_tournament panicked: {e}"), det()),
            Ok((a, b)) => {
                if a != b {
                    ctx.fail(format!("AdjacencyMap::random_tournament({n}, {seed}) does not repeat with {p} threads"), det());
                }
                match observe(&a) {
                    Ok(o) => {
                        let ok = o.v == (0..n).collect() && (0..n).all(|u| ((u + 1)..n).all(|v| o.has(u, v) != o.has(v, u)));
                        if !ok {
                            ctx.fail(format!("AdjacencyMap::random_tournament({n}, {seed}) with {p} threads is not a tournament: {}", o.arcs_json()), det());
                        }
                    }
                    Err(e) => ctx.fail(format!("AdjacencyMap::random_tournament({n}, {seed}) with {p} threads: {e}"), det()),
                }
            }
        }
        for pr in [0.3, 0.8] {
            ctx.execs_n(2);
            match guarded(|| (AM::erdos_renyi(n, pr, seed), AM::erdos_renyi(n, pr, seed))) {
                Err(e) => ctx.fail(format!("AdjacencyMap::erdos_renyi panicked: {e}"), det()),
                Ok((a, b)) => {
                    if a != b {
                        ctx.fail(format!("AdjacencyMap::erdos_renyi({n}, {pr}, {seed}) does not repeat with {p} threads"), det());
                    }
                    match observe(&a) {
                        Ok(o) if o.v == (0..n).collect() => {}
                        Ok(o) => ctx.fail(format!("AdjacencyMap::erdos_renyi({n}, {pr}, {seed}) with {p} threads has vertex set {:?}", o.v), det()),
                        Err(e) => ctx.fail(format!("AdjacencyMap::erdos_renyi({n}, {pr}, {seed}) with {p} threads: {e}"), det()),
                    }
                }
            }
        }
        if n > p && p > 1 {
            ctx.nontrivial();
        }
        ctx.sample(|| det());
    })
    .procs()
}

// ---------------------------------------------------------------------------
// Affinity conformance: the seam set to k must behave exactly like a process
// that really has k CPUs.

/// A fixed battery whose digest depends on the thread count (the seeded
/// AdjacencyMap generators seed one PRNG per worker).
pub fn battery_digest() -> (u64, u64) {
    let mut h = DefaultHasher::new();
    for n in [1usize, 2, 3, 5, 8, 13, 16, 17, 24, 33, 40] {
        for seed in [0u64, 9] {
            format!("{:?}", AM::random_tournament(n, seed)).hash(&mut h);
            format!("{:?}", AM::erdos_renyi(n, 0.3, seed)).hash(&mut h);
            format!("{:?}", AM::erdos_renyi(n, 0.7, seed)).hash(&mut h);
        }
        for (_, a) in big_inputs(n) {
            let d = mk::<AL>(&a);
            format!("{:?}", d.complement()).hash(&mut h);
            format!("{:?}", d.union(&d.complement())).hash(&mut h);
            format!("{:?}", d.degree_sequence().collect::<Vec<_>>()).hash(&mut h);
            d.is_semicomplete().hash(&mut h);
            let m = mk::<AM>(&a);
            format!("{:?}", m.union(&m.converse())).hash(&mut h);
        }
        format!("{:?}", AL::complete(n)).hash(&mut h);
    }
    (h.finish(), graaf::verif_rt::parallelism_calls())
}

/// `gv conf-battery <system|seam:k>`
pub fn battery_main(mode: &str) -> i32 {
    if let Some(k) = mode.strip_prefix("seam:") {
        par(k.parse().unwrap_or(1));
    } else {
        par_system();
    }
    let (d, calls) = battery_digest();
    let real = std::thread::available_parallelism().map_or(0, |n| n.get());
    println!("@@BATTERY {}", json!({"mode": mode, "digest": format!("{d:016x}"), "seam_calls": calls, "os_available_parallelism": real}));
    0
}

fn run_child(args: &[&str], taskset: Option<usize>) -> Option<Value> {
    let exe = std::env::current_exe().ok()?;
    let out = if let Some(k) = taskset {
        std::process::Command::new("taskset").arg("-c").arg(format!("0-{}", k - 1)).arg(&exe).args(args).output().ok()?
    } else {
        std::process::Command::new(&exe).args(args).output().ok()?
    };
    let text = String::from_utf8_lossy(&out.stdout).to_string();
    text.lines().find_map(|l| l.strip_prefix("@@BATTERY ").and_then(|j| serde_json::from_str(j).ok()))
}

fn affinity_conformance(ks: &[usize], ctx: &mut Ctx) -> Value {
    let ncpu = std::thread::available_parallelism().map_or(1, |n| n.get());
    let mut rows = Vec::new();
    let mut digests = std::collections::BTreeSet::new();
    let mut validated = 0u64;
    for &k in ks {
        if k > ncpu {
            rows.push(json!({"k": k, "skipped": format!("machine offers {ncpu} CPUs")}));
            continue;
        }
        let seam = run_child(&["conf-battery", &format!("seam:{k}")], None);
        let real = run_child(&["conf-battery", "system"], Some(k));
        match (seam, real) {
            (Some(s), Some(r)) => {
                let ds = s.get("digest").and_then(Value::as_str).unwrap_or("").to_string();
                let dr = r.get("digest").and_then(Value::as_str).unwrap_or("").to_string();
                let os_k = r.get("os_available_parallelism").and_then(Value::as_u64).unwrap_or(0);
                digests.insert(ds.clone());
                ctx.exec();
                if os_k != k as u64 {
                    rows.push(json!({"k": k, "skipped": format!("taskset -c 0-{} gave the process {os_k} CPUs", k - 1)}));
                    continue;
                }
                validated += 1;
                if ds != dr {
                    ctx.fail_count += 1;
                    ctx.fails.push(Fail { case: CaseId { kind: "post:affinity".into(), p: vec![k as u64], idx: 0 }, what: format!("battery digest with the seam set to {k} ({ds}) differs from the digest of a process really restricted to {k} CPUs by taskset ({dr}): the routines consult something other than available_parallelism, or the seam misrepresents it"), known: None, detail: json!({"k": k, "seam": s, "taskset": r}) });
                }
                rows.push(json!({"k": k, "seam_digest": ds, "taskset_digest": dr, "equal": ds == dr, "seam_calls": s.get("seam_calls")}));
            }
            _ => rows.push(json!({"k": k, "skipped": "could not run the battery child (taskset missing?)"})),
        }
    }
    json!({"affinity_conformance": rows, "affinity_runs_validated": validated, "distinct_battery_digests_across_k": digests.len()})
}

// ---------------------------------------------------------------------------
// schedules (shared with C12, C15)

pub fn affinity_only(ks: &[usize], ctx: &mut Ctx) -> Value {
    affinity_conformance(ks, ctx)
}

pub fn run_sched(prop: &str, tier: &str, ctx: &mut Ctx) -> Value {
    let exe = "/verif/engine/target-sched/release/gv";
    let out = match std::process::Command::new("timeout").args(["-k", "5", if tier == "thorough" { "7200" } else { "900" }, exe, "sched", prop, tier]).output() {
        Ok(o) => o,
        Err(e) => {
            eprintln!("gv: cannot run the schedule engine {exe}: {e} (machinery error)");
            std::process::exit(2);
        }
    };
    let text = String::from_utf8_lossy(&out.stdout).to_string();
    let Some(v) = text.lines().find_map(|l| l.strip_prefix("@@SCHED ").and_then(|j| serde_json::from_str::<Value>(j).ok())) else {
        eprintln!("gv: schedule engine produced no result (exit {:?}): machinery error\n{}", out.status.code(), String::from_utf8_lossy(&out.stderr));
        std::process::exit(2);
    };
    if out.status.code() != Some(0) {
        eprintln!("gv: schedule engine reported a machinery error (canary not detected or replay divergence): {}", v.get("errors").unwrap_or(&Value::Null));
        std::process::exit(2);
    }
    let jobs = v.get("jobs").and_then(Value::as_u64).unwrap_or(0);
    let schedules = v.get("schedules").and_then(Value::as_u64).unwrap_or(0);
    ctx.cases += jobs;
    ctx.execs += schedules;
    ctx.nontrivial_cases += v.get("schedules_with_preemption").and_then(Value::as_u64).unwrap_or(0).min(jobs);
    if let Some(fs) = v.get("failures").and_then(Value::as_array) {
        for f in fs {
            ctx.fail_count += 1;
            ctx.fails.push(Fail { case: CaseId { kind: "post:sched".into(), p: vec![], idx: 0 }, what: f.get("what").and_then(Value::as_str).unwrap_or("schedule failure").to_string(), known: None, detail: f.clone() });
        }
    }
    if let Some(s) = v.get("sample") {
        if !s.is_null() {
            ctx.samples.push(json!({"schedule_exploration": s}));
        }
    }
    let mut v2 = v.clone();
    if let Some(o) = v2.as_object_mut() {
        o.remove("failures");
        o.remove("sample");
    }
    json!({"schedules": v2})
}

pub fn c17(tier: &str, seed: u64) -> Check {
    let thorough = tier == "thorough";
    static OQ: [usize; 16] = [1, 2, 3, 4, 5, 6, 7, 8, 9, 10, 15, 16, 17, 31, 32, 33];
    static OT: [usize; 22] = [1, 2, 3, 4, 5, 6, 7, 8, 9, 10, 12, 15, 16, 17, 24, 31, 32, 33, 34, 48, 65, 70];
    static XQ: [usize; 2] = [17, 33];
    static XT: [usize; 4] = [40, 64, 100, 1000];
    let mut spaces = Vec::new();
    spaces.push(c17_small_space(if thorough { 8 } else { 4 }));
    spaces.push(c17_family_space(if thorough { &OT } else { &OQ }, if thorough { 33 } else { 16 }, if thorough { &XT } else { &XQ }));
    spaces.push(c17_am_union_space(if thorough { 6 } else { 5 }, if thorough { 14 } else { 8 }));
    spaces.push(c17_seeded_space(if thorough { 40 } else { 20 }, if thorough { 33 } else { 17 }));
    let report = super::report(
        "C17",
        tier,
        seed,
        "three exhaustive explorations of the real code: (1) configurations — the answer of available_parallelism() is owned by the harness (cfg(graaf_verif) seam) and swept over Err, 1..=16 (33) and a few larger values for every input: every ordered pair of digraphs of order ≤ 3 and structured families at orders 1..10, 15..17, 31..33 (..70) so that row counts fall below, on, just above and far above the thread count and are not multiples of the chunk size; AdjacencyMap::union over every ordered pair of key sets ⊆ 0..5 (0..6); the seeded AdjacencyMap generators valid and repeatable per configuration; (2) conformance of that seam with reality — a battery whose digest depends on the thread count is run with the seam unset under `taskset -c 0-(k-1)` and must equal the run with the seam set to k; (3) schedules — all eight routines under our preemption-bounded depth-first scheduler on shuttle's runtime (≤ 3 preemptions; 2-3 workers quick, 2-4 workers and more inputs thorough): every schedule must give the reference result and one outcome per input. Non-trivial: rows > threads with a ragged last chunk; partially overlapping key sets; schedules with ≥ 1 preemption.",
        &[
            "writes through raw pointers inside the workers are invisible to a cooperative scheduler; their data-race freedom is checked by Miri's race detector in C13, on free-running threads",
            "shuttle treats every atomic as SeqCst",
            "free-running repeated executions are not used as evidence (that would be sampling)",
        ],
        json!({"par_range": if thorough { "Err, 1..=33, 40, 64, 100, 1000" } else { "Err, 1..=16, 17, 33" }, "taskset_k": if thorough { json!([1,2,3,4,5,6,7,8,9,10,11,12,13,14,15,16]) } else { json!([1,2,3,5,8,16]) }}),
    );
    let tier2 = tier.to_string();
    Check {
        spaces,
        report,
        post: Some(Box::new(move |ctx| {
            let ks: Vec<usize> = if tier2 == "thorough" { (1..=16).collect() } else { vec![1, 2, 3, 5, 8, 16] };
            let mut out = affinity_conformance(&ks, ctx);
            let s = run_sched("C17", &tier2, ctx);
            if let (Some(a), Some(b)) = (out.as_object_mut(), s.as_object()) {
                for (k, v) in b {
                    a.insert(k.clone(), v.clone());
                }
            }
            out
        })),
    }
}
