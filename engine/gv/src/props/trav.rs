//! C04 (BFS), C06 (DFS), C09 (Tarjan), C10 (Johnson75): unweighted algorithms
//! over every small digraph, every source set, every representation.

use crate::core::{guarded, Ctx, Space};
use crate::refm::{dfs_has_stale_pop, dfs_known_defect, Abs, DfsValidator};
use crate::reps::*;
use crate::spacesx::*;
use crate::Check;
use graaf::*;
use serde_json::json;
use std::collections::{BTreeMap, BTreeSet};
use std::sync::Arc;

fn mkd<R: Rep>(abs: &Abs, ctx: &mut Ctx) -> Option<R> {
    match guarded(|| mk::<R>(abs)) {
        Ok(d) => Some(d),
        Err(e) => {
            ctx.fail(format!("{}: building through empty()+add_arc panicked: {e}", R::NAME), json!({"digraph": abs.arcs_json()}));
            None
        }
    }
}

// ------------------------------------------------------------------ C04

pub fn bfs_case<R: Rep>(abs: &Abs, d: &R, srcs: &[usize], ctx: &mut Ctx) {
    let rn = R::NAME;
    let sset: BTreeSet<usize> = srcs.iter().copied().collect();
    let lv = abs.levels(&sset);
    let det = || json!({"rep": rn, "digraph": abs.arcs_json(), "sources": srcs});
    // Bfs
    ctx.exec();
    match guarded(|| Bfs::new(d, srcs.to_vec().into_iter()).collect::<Vec<usize>>()) {
        Err(e) => ctx.fail(format!("Bfs over {rn} panicked: {e}"), det()),
        Ok(seq) => {
            let mut seen = BTreeSet::new();
            let mut last = 0usize;
            for (i, &v) in seq.iter().enumerate() {
                if !seen.insert(v) {
                    ctx.fail(format!("Bfs yielded vertex {v} twice: {seq:?}"), det());
                    return;
                }
                match lv.get(&v) {
                    None => {
                        ctx.fail(format!("Bfs yielded vertex {v}, which is not reachable from the sources: {seq:?}"), det());
                        return;
                    }
                    Some(&l) => {
                        if l < last {
                            ctx.fail(format!("Bfs order not nearest-first: item {i} = {v} at hop distance {l} after distance {last}: {seq:?}"), det());
                            return;
                        }
                        last = l;
                    }
                }
            }
            if seen.len() != lv.len() {
                ctx.fail(format!("Bfs yielded {seq:?}; reachable set is {:?}", lv.keys().collect::<Vec<_>>()), det());
                return;
            }
        }
    }
    // BfsDist
    ctx.exec();
    match guarded(|| BfsDist::new(d, srcs.to_vec().into_iter()).collect::<Vec<(usize, usize)>>()) {
        Err(e) => ctx.fail(format!("BfsDist over {rn} panicked: {e}"), det()),
        Ok(seq) => {
            let mut seen = BTreeSet::new();
            let mut last = 0usize;
            for &(v, w) in &seq {
                if !seen.insert(v) {
                    ctx.fail(format!("BfsDist yielded vertex {v} twice: {seq:?}"), det());
                    return;
                }
                if lv.get(&v) != Some(&w) {
                    ctx.fail(format!("BfsDist yielded ({v}, {w}); hop distance by definition is {:?}: {seq:?}", lv.get(&v)), det());
                    return;
                }
                if w < last {
                    ctx.fail(format!("BfsDist order not nearest-first: {seq:?}"), det());
                    return;
                }
                last = w;
            }
            if seen.len() != lv.len() {
                ctx.fail(format!("BfsDist yielded {seq:?}; reachable set is {:?}", lv.keys().collect::<Vec<_>>()), det());
                return;
            }
        }
    }
    // distances()
    ctx.exec();
    let want: Vec<usize> = (0..abs.n()).map(|v| lv.get(&v).copied().unwrap_or(usize::MAX)).collect();
    match guarded(|| BfsDist::new(d, srcs.to_vec().into_iter()).distances()) {
        Err(e) => ctx.fail(format!("BfsDist::distances over {rn} panicked: {e}"), det()),
        Ok(got) => {
            if got != want {
                ctx.fail(format!("BfsDist::distances() = {got:?}, definition gives {want:?}"), det());
                return;
            }
        }
    }
    // distances() on a search that has already yielded k items: every entry is the exact hop
    // distance or usize::MAX (never a wrong finite value), and every reachable vertex is either
    // among the items already yielded or labelled now
    let len = lv.len();
    let ks: Vec<usize> = if len <= 6 { (1..len).collect() } else { vec![1, 2, len / 2, len - 1] };
    for k in ks {
        ctx.exec();
        match guarded(|| {
            let mut it = BfsDist::new(d, srcs.to_vec().into_iter());
            let head: Vec<(usize, usize)> = it.by_ref().take(k).collect();
            (head, it.distances())
        }) {
            Err(e) => {
                ctx.fail(format!("BfsDist: {k} × next() then distances() over {rn} panicked: {e}"), det());
                return;
            }
            Ok((head, got)) => {
                let mut accounted: BTreeSet<usize> = head.iter().map(|x| x.0).collect();
                let mut bad = got.len() != abs.n();
                for (v, &w) in got.iter().enumerate() {
                    if w != usize::MAX {
                        accounted.insert(v);
                        if lv.get(&v) != Some(&w) {
                            bad = true;
                        }
                    }
                }
                if bad || accounted.len() != lv.len() {
                    ctx.fail(format!("BfsDist: after {k} × next() (items {head:?}) distances() = {got:?}; hop distances are {want:?}: an entry is neither exact nor usize::MAX, or a reachable vertex is neither yielded nor labelled"), det());
                    return;
                }
            }
        }
    }
}

fn c04_space<R: Rep>(n: usize, max_sources: usize) -> Space {
    Space::new("c04.bfs", vec![R::ID, n as u64, max_sources as u64], dcount(n), format!("Bfs/BfsDist/distances on every digraph on 0..{n} in {}, every source subset with ≤ {max_sources} sources (∅ included), ascending and descending source order", R::NAME), move |idx, ctx| {
        let abs = Abs::from_mask(n, idx);
        let Some(d) = mkd::<R>(&abs, ctx) else { return };
        let mut nontriv = false;
        for m in 0..(1u64 << n) {
            let s = subset_vec(m, n);
            if s.len() > max_sources {
                continue;
            }
            bfs_case(&abs, &d, &s, ctx);
            if s.len() >= 2 {
                let mut r = s.clone();
                r.reverse();
                bfs_case(&abs, &d, &r, ctx);
            }
            if !nontriv {
                let lv = abs.levels(&s.iter().copied().collect());
                if lv.values().any(|&l| l >= 2) && lv.len() < n {
                    nontriv = true;
                }
            }
        }
        if nontriv {
            ctx.nontrivial();
        }
        ctx.sample(|| json!({"rep": R::NAME, "digraph": abs.arcs_json(), "sources": "every subset, both orders"}));
    })
}

pub fn c04(tier: &str, seed: u64) -> Check {
    let thorough = tier == "thorough";
    let mut spaces = Vec::new();
    macro_rules! reps {
        ($($t:ty),*) => {$(
            for n in 1..=4 { spaces.push(c04_space::<$t>(n, n)); }
            if thorough { spaces.push(c04_space::<$t>(5, 5)); }
        )*};
    }
    reps!(AL, AM, AX, EL, WU);
    if !thorough {
        // order 5 in the quick tier: every representation, ≤ 1 source
        spaces.push(c04_space::<AL>(5, 1));
        spaces.push(c04_space::<AM>(5, 1));
        spaces.push(c04_space::<AX>(5, 1));
        spaces.push(c04_space::<EL>(5, 1));
        spaces.push(c04_space::<WU>(5, 1));
    }
    spaces.push(crate::props::fam::c04_c06_family("bfs", thorough));
    spaces.push(crate::props::large::trav_big("bfs", thorough));
    spaces.push(crate::props::huge::space("C04"));
    let report = super::report(
        "C04",
        tier,
        seed,
        "bounded-exhaustive: every digraph on 0..n (n ≤ 4, and 5 in the thorough tier) × every subset of sources (empty included, both iteration orders) × five representations; Bfs / BfsDist item sequences and BfsDist::distances() compared with hop levels computed by frontier iteration over the reference arc set; order inside a level is free; additionally distances() is called on a search that has already yielded k items (every k): each entry must be the exact hop distance or usize::MAX and every reachable vertex must be yielded or labelled. Beyond exhaustive reach: 17 structured shapes at orders 6, 8, 11 (6..11 thorough) in five representations with every single source and six source sets. Non-trivial: some source set gives ≥ 3 levels and leaves a vertex unreachable.",
        &["sources are distinct and in range, as the property states", "orders > 5 are not explored"],
        json!({"max_order": if thorough {5} else {4}, "reps": 5}),
    );
    Check { spaces, report, post: None }
}

// ------------------------------------------------------------------ C06

pub const KF_DFS: &str = "dfs-stale-pop-ends-iteration";

/// Runs the three DFS iterators and DfsPred::predecessors() on one
/// (digraph, ordered sources) and validates them. Returns false if the case
/// matched the recorded finding.
pub fn dfs_case<R: Rep>(abs: &Abs, d: &R, srcs: &[usize], ctx: &mut Ctx) {
    let rn = R::NAME;
    let sset: BTreeSet<usize> = srcs.iter().copied().collect();
    let det = |extra: serde_json::Value| json!({"rep": rn, "digraph": abs.arcs_json(), "sources_in_order": srcs, "observed": extra});
    ctx.execs_n(4);
    let r = guarded(|| {
        let a: Vec<usize> = Dfs::new(d, srcs.to_vec().into_iter()).collect();
        let b: Vec<(usize, usize)> = DfsDist::new(d, srcs.to_vec().into_iter()).collect();
        let c: Vec<(Option<usize>, usize)> = DfsPred::new(d, srcs.to_vec().into_iter()).collect();
        let t = DfsPred::new(d, srcs.to_vec().into_iter()).predecessors();
        (a, b, c, t.pred)
    });
    let (a, b, c, t) = match r {
        Ok(x) => x,
        Err(e) => {
            ctx.fail(format!("Dfs/DfsDist/DfsPred over {rn} panicked: {e}"), det(json!(null)));
            return;
        }
    };
    let observed = || json!({"Dfs": a, "DfsDist": b, "DfsPred": c.iter().map(|(p, v)| json!([p, v])).collect::<Vec<_>>(), "predecessors": t});
    // validate each stream
    let mut errs: Vec<String> = Vec::new();
    let mut only_truncation = true;
    {
        let mut val = DfsValidator::new(abs, &sset);
        for &v in &a {
            if let Err(e) = val.step(v, None, None) {
                errs.push(format!("Dfs: {e}"));
                only_truncation = false;
                break;
            }
        }
        if errs.is_empty() {
            if let Err(e) = val.finish() {
                errs.push(format!("Dfs: {e}"));
            }
        }
    }
    {
        let mut val = DfsValidator::new(abs, &sset);
        let mut ok = true;
        for &(v, w) in &b {
            if let Err(e) = val.step(v, None, Some(w)) {
                errs.push(format!("DfsDist: {e}"));
                only_truncation = false;
                ok = false;
                break;
            }
        }
        if ok {
            if let Err(e) = val.finish() {
                errs.push(format!("DfsDist: {e}"));
            }
        }
    }
    let mut forest: BTreeMap<usize, Option<usize>> = BTreeMap::new();
    {
        let mut val = DfsValidator::new(abs, &sset);
        let mut ok = true;
        for &(p, v) in &c {
            if let Err(e) = val.step(v, Some(p), None) {
                errs.push(format!("DfsPred: {e}"));
                only_truncation = false;
                ok = false;
                break;
            }
            forest.insert(v, p);
        }
        if ok {
            if let Err(e) = val.finish() {
                errs.push(format!("DfsPred: {e}"));
            }
        }
    }
    // predecessors() is the forest of the (accepted) DfsPred run
    let want_t: Vec<Option<usize>> = (0..abs.n()).map(|v| forest.get(&v).copied().flatten()).collect();
    if t != want_t {
        errs.push(format!("DfsPred::predecessors() = {t:?}, the forest reported by iterating DfsPred is {want_t:?}"));
        only_truncation = false;
    }
    if errs.is_empty() {
        // predecessors() on a search that has already yielded k items reports exactly the rest of
        // the same forest (None for the vertices yielded before the call)
        let len = c.len();
        let ks: Vec<usize> = if len <= 6 { (1..len).collect() } else { vec![1, 2, len / 2, len - 1] };
        for k in ks {
            ctx.exec();
            match guarded(|| {
                let mut it = DfsPred::new(d, srcs.to_vec().into_iter());
                let head: Vec<(Option<usize>, usize)> = it.by_ref().take(k).collect();
                (head, it.predecessors().pred)
            }) {
                Err(e) => {
                    ctx.fail(format!("DfsPred: {k} × next() then predecessors() over {rn} panicked: {e}"), det(observed()));
                    return;
                }
                Ok((head, got)) => {
                    let rest: BTreeMap<usize, Option<usize>> = c[k.min(len)..].iter().map(|&(p, v)| (v, p)).collect();
                    let want: Vec<Option<usize>> = (0..abs.n()).map(|v| rest.get(&v).copied().flatten()).collect();
                    if head != c[..k.min(len)] || got != want {
                        ctx.fail(format!("DfsPred: after {k} × next() (items {head:?}) predecessors() = {got:?}; the rest of the forest reported by a full iteration is {want:?}"), det(observed()));
                        return;
                    }
                }
            }
        }
        return;
    }
    // Classifier for the recorded finding D2: the three streams are exactly
    // the correct lazy-stack preorder cut at the first pop of an
    // already-visited vertex, and nothing else is wrong.
    let pred = dfs_known_defect(abs, srcs);
    let ka: Vec<usize> = pred.iter().map(|x| x.1).collect();
    let kb: Vec<(usize, usize)> = pred.iter().map(|x| (x.1, x.2)).collect();
    let kc: Vec<(Option<usize>, usize)> = pred.iter().map(|x| (x.0, x.1)).collect();
    let known = only_truncation && a == ka && b == kb && c == kc;
    ctx.fail_known(errs.join("; "), det(observed()), if known { Some(KF_DFS.to_string()) } else { None });
}

fn c06_space<R: Rep>(n: usize, max_sources: usize) -> Space {
    let arr = Arc::new(arrangements_upto(n, max_sources));
    Space::new("c06.dfs", vec![R::ID, n as u64, max_sources as u64], dcount(n), format!("Dfs/DfsDist/DfsPred/predecessors on every digraph on 0..{n} in {}, every ordered arrangement of every source subset with ≤ {max_sources} sources ({} arrangements)", R::NAME, arr.len()), move |idx, ctx| {
        let abs = Abs::from_mask(n, idx);
        let Some(d) = mkd::<R>(&abs, ctx) else { return };
        let mut nontriv = false;
        for s in arr.iter() {
            dfs_case(&abs, &d, s, ctx);
            if !nontriv && dfs_has_stale_pop(&abs, s) {
                nontriv = true;
            }
        }
        if nontriv {
            ctx.nontrivial();
        }
        ctx.sample(|| json!({"rep": R::NAME, "digraph": abs.arcs_json(), "sources": format!("all {} arrangements", arr.len())}));
    })
}

pub fn c06(tier: &str, seed: u64) -> Check {
    let thorough = tier == "thorough";
    let mut spaces = Vec::new();
    macro_rules! reps {
        ($($t:ty),*) => {$(
            for n in 1..=4 { spaces.push(c06_space::<$t>(n, n)); }
        )*};
    }
    reps!(AL, AM, AX, EL, WU);
    if thorough {
        spaces.push(c06_space::<AL>(5, 2));
        spaces.push(c06_space::<AX>(5, 2));
        spaces.push(c06_space::<AM>(5, 1));
        spaces.push(c06_space::<EL>(5, 1));
        spaces.push(c06_space::<WU>(5, 1));
    } else {
        spaces.push(c06_space::<AL>(5, 1));
        spaces.push(c06_space::<AM>(5, 1));
        spaces.push(c06_space::<AX>(5, 1));
        spaces.push(c06_space::<EL>(5, 1));
        spaces.push(c06_space::<WU>(5, 1));
    }
    spaces.push(crate::props::fam::c04_c06_family("dfs", thorough));
    spaces.push(crate::props::large::trav_big("dfs", thorough));
    spaces.push(crate::props::huge::space("C06"));
    let report = super::report(
        "C06",
        tier,
        seed,
        "bounded-exhaustive: every digraph on 0..n (n ≤ 4; order 5 with ≤ 1-2 sources) × every ordered arrangement of every source subset × five representations; the item streams of Dfs, DfsDist and DfsPred are fed to a depth-first-preorder validator that keeps the current search path and accepts (pred, v, depth) iff it is what C06 states (any neighbour/root order is accepted), then the yielded set must equal the reachable set and predecessors() must be the forest; on accepted cases predecessors() is also called on a DfsPred that has already yielded k items (every k) and must report exactly the rest of that forest. Beyond exhaustive reach: 17 structured shapes at orders 6, 8, 11 (6..11 thorough). A failing case is attributed to the recorded finding only if all three streams equal, item for item, the prediction 'correct lazy-stack preorder cut at the first pop of an already-visited vertex'. Non-trivial: some arrangement makes a lazy-stack DFS pop an already-visited vertex while unvisited entries remain.",
        &["sources are distinct and in range", "the known-finding classifier assumes out_neighbors() is ascending (checked by C02)"],
        json!({"max_order_all_arrangements": 4, "order5_sources": if thorough {2} else {1}}),
    );
    Check { spaces, report, post: None }
}

// ------------------------------------------------------------------ C09

pub fn tarjan_check<R: Rep>(abs: &Abs, d: &R, ctx: &mut Ctx) {
    ctx.exec();
    let det = || json!({"rep": R::NAME, "digraph": abs.arcs_json()});
    // components() twice on one object: the answer is a property of the digraph, not of the call count
    match guarded(|| {
        let mut t = Tarjan::new(d);
        let first = t.components().clone();
        let second = t.components().clone();
        (first, second)
    }) {
        Err(e) => ctx.fail(format!("Tarjan over {} panicked: {e}", R::NAME), det()),
        Ok((comps, second)) => {
            if second != comps {
                ctx.fail(format!("Tarjan::components() called twice on one object: first {comps:?}, then {second:?}"), det());
                return;
            }
            let want = abs.scc();
            let got: BTreeSet<BTreeSet<usize>> = comps.iter().cloned().collect();
            let total: usize = comps.iter().map(BTreeSet::len).sum();
            if got.len() != comps.len() || total != abs.n() || comps.iter().any(BTreeSet::is_empty) {
                ctx.fail(format!("Tarjan::components() = {comps:?} is not a partition of V = {:?}", abs.v), det());
            } else if got != want {
                ctx.fail(format!("Tarjan::components() = {comps:?}; classes of mutual reachability are {want:?}"), det());
            }
            if want.len() >= 2 && want.iter().any(|c| c.len() >= 2) {
                ctx.nontrivial();
            }
        }
    }
}

fn c09_space<R: Rep>(n: usize) -> Space {
    Space::new("c09.tarjan", vec![R::ID, n as u64], dcount(n), format!("Tarjan::components on every digraph on 0..{n} in {}", R::NAME), move |idx, ctx| {
        let abs = Abs::from_mask(n, idx);
        let Some(d) = mkd::<R>(&abs, ctx) else { return };
        tarjan_check(&abs, &d, ctx);
        ctx.sample(|| json!({"rep": R::NAME, "digraph": abs.arcs_json(), "scc": abs.scc()}));
    })
}

/// order 6 with a bounded number of arcs (AdjacencyList and AdjacencyMap)
fn c09_space6(max_arcs: usize) -> Space {
    Space::new("c09.tarjan6", vec![max_arcs as u64], dcount(6), format!("Tarjan::components on every digraph on 0..6 with ≤ {max_arcs} arcs (AdjacencyList, AdjacencyMap)"), move |idx, ctx| {
        if idx.count_ones() as usize > max_arcs {
            ctx.skip();
            return;
        }
        let abs = Abs::from_mask(6, idx);
        let Some(d) = mkd::<AL>(&abs, ctx) else { return };
        tarjan_check(&abs, &d, ctx);
        let Some(d) = mkd::<AM>(&abs, ctx) else { return };
        tarjan_check(&abs, &d, ctx);
        ctx.sample(|| json!({"digraph": abs.arcs_json(), "scc": abs.scc()}));
    })
}

fn c09_sparse(pool: &'static [usize], k: usize) -> Space {
    let sp = Arc::new(SparseSpace::new(pool, k));
    Space::new("c09.sparse", vec![pool.len() as u64, k as u64, pool.iter().map(|&x| x as u64).sum()], sp.total, format!("Tarjan::components on AdjacencyMap with every vertex set V ⊆ {pool:?}, |V| ≤ {k}, every arc set (non-contiguous ids)"), move |idx, ctx| {
        let abs = sp.get(idx);
        let d = match guarded(|| mk_am(&abs)) {
            Ok(d) => d,
            Err(e) => {
                ctx.fail(format!("building non-contiguous AdjacencyMap panicked: {e}"), json!({"digraph": abs.arcs_json()}));
                return;
            }
        };
        if observe(&d).map_or(true, |o| !same::<AM>(&o, &abs)) {
            ctx.fail("non-contiguous AdjacencyMap not observed as built", json!({"digraph": abs.arcs_json()}));
            return;
        }
        tarjan_check(&abs, &d, ctx);
        if !abs.is_contiguous() {
            ctx.tag("noncontiguous");
        }
        ctx.sample(|| json!({"rep": "AdjacencyMap", "digraph": abs.arcs_json(), "scc": abs.scc()}));
    })
}

pub fn c09(tier: &str, seed: u64) -> Check {
    let thorough = tier == "thorough";
    let mut spaces = Vec::new();
    macro_rules! reps {
        ($($t:ty),*) => {$(
            for n in 1..=5 { spaces.push(c09_space::<$t>(n)); }
        )*};
    }
    reps!(AL, AM, AX, EL, WU);
    if thorough {
        spaces.push(c09_space6(9));
    }
    spaces.push(c09_sparse(&[0, 2, 3, 7, 9], 4));
    spaces.push(c09_sparse(&[1, 4, 6], 3));
    spaces.push(crate::props::fam::c09_family(thorough));
    spaces.push(crate::props::large::trav_big("tarjan", thorough));
    spaces.push(crate::props::huge::space("C09"));
    let report = super::report(
        "C09",
        tier,
        seed,
        "bounded-exhaustive: every digraph on 0..n (n ≤ 4; 5: AdjacencyList quick, all reps thorough) in five representations, and AdjacencyMap over every vertex set of the id pools {0,2,3,7,9} (≤ 4 vertices) and {1,4,6} with every arc set; Tarjan::components() as a set of sets must equal the classes of mutual reachability computed from per-vertex reachability sets, and be a partition. Beyond exhaustive reach: 17 structured shapes at orders 6, 8, 11 (6..11 thorough), also relabelled onto non-contiguous ids. Non-trivial: ≥ 2 components, one of size ≥ 2.",
        &["orders > 5 not explored"],
        json!({"max_order": 5, "sparse_pools": [[0,2,3,7,9],[1,4,6]]}),
    );
    Check { spaces, report, post: None }
}

// ------------------------------------------------------------------ C10

/// Does Johnson's blocked-set bookkeeping matter on this digraph? Counted on
/// an instrumented textbook simulation over the reference digraph: a vertex is
/// left blocked by a failed search and later unblocked through a B-list.
fn johnson_blocking_matters(abs: &Abs) -> bool {
    struct St<'a> {
        g: &'a Abs,
        blocked: BTreeSet<usize>,
        b: BTreeMap<usize, BTreeSet<usize>>,
        cascade: bool,
        comp: BTreeSet<usize>,
    }
    fn unblock(st: &mut St<'_>, u: usize, depth: usize) {
        if st.blocked.remove(&u) {
            if depth > 0 {
                st.cascade = true;
            }
            let l: Vec<usize> = st.b.remove(&u).unwrap_or_default().into_iter().collect();
            for w in l {
                unblock(st, w, depth + 1);
            }
        }
    }
    fn circuit(st: &mut St<'_>, v: usize, s: usize) -> bool {
        let mut f = false;
        st.blocked.insert(v);
        for w in st.g.out(v) {
            if !st.comp.contains(&w) {
                continue;
            }
            if w == s {
                f = true;
            } else if !st.blocked.contains(&w) && circuit(st, w, s) {
                f = true;
            }
        }
        if f {
            unblock(st, v, 0);
        } else {
            for w in st.g.out(v) {
                if st.comp.contains(&w) {
                    st.b.entry(w).or_default().insert(v);
                }
            }
        }
        f
    }
    let mut any = false;
    for &s in &abs.v {
        let sub = abs.induced(|u| u >= s);
        let comp = sub.scc().into_iter().find(|c| c.contains(&s)).unwrap_or_default();
        if comp.len() < 2 {
            continue;
        }
        let mut st = St { g: abs, blocked: BTreeSet::new(), b: BTreeMap::new(), cascade: false, comp };
        let _ = circuit(&mut st, s, s);
        any |= st.cascade;
    }
    any
}

fn c10_space(n: usize, max_arcs: usize) -> Space {
    Space::new("c10.johnson", vec![n as u64, max_arcs as u64], dcount(n), format!("Johnson75::circuits on every AdjacencyMap digraph on 0..{n} with ≤ {max_arcs} arcs"), move |idx, ctx| {
        if (idx.count_ones() as usize) > max_arcs {
            ctx.skip();
            return;
        }
        let abs = Abs::from_mask(n, idx);
        johnson_check(&abs, ctx);
    })
}

pub fn johnson_check(abs: &Abs, ctx: &mut Ctx) {
    {
        let Some(d) = mkd::<AM>(abs, ctx) else { return };
        ctx.exec();
        let det = || json!({"digraph": abs.arcs_json()});
        match guarded(|| {
            let mut j = Johnson75::new(&d);
            let first = j.circuits();
            let second = j.circuits();
            (first, second)
        }) {
            Err(e) => ctx.fail(format!("Johnson75::circuits panicked: {e}"), det()),
            Ok((got, second)) => {
                if second != got {
                    ctx.fail(format!("Johnson75::circuits() called twice on one object: first {got:?}, then {second:?}"), det());
                    return;
                }
                let mut want = abs.circuits();
                want.sort();
                let mut g = got.clone();
                g.sort();
                // each returned sequence must itself be a well-formed circuit
                for c in &got {
                    let distinct: BTreeSet<usize> = c.iter().copied().collect();
                    let ok = c.len() >= 2 && distinct.len() == c.len() && c[0] == *distinct.iter().next().unwrap() && (0..c.len()).all(|i| abs.has(c[i], c[(i + 1) % c.len()]));
                    if !ok {
                        ctx.fail(format!("Johnson75 returned {c:?}, which is not an elementary circuit written from its smallest vertex"), det());
                        return;
                    }
                }
                if g != want {
                    let missing: Vec<_> = want.iter().filter(|c| !g.contains(c)).collect();
                    let extra: Vec<_> = g.iter().filter(|c| !want.contains(c)).collect();
                    let dup = g.windows(2).any(|w| w[0] == w[1]);
                    ctx.fail(format!("Johnson75::circuits() returned {} sequences, the digraph has {} elementary circuits; missing {missing:?}, extra {extra:?}, duplicates: {dup}", g.len(), want.len()), det());
                }
                if want.len() >= 2 && abs.n() <= 6 && johnson_blocking_matters(abs) {
                    ctx.nontrivial();
                }
                ctx.sample(|| json!({"digraph": abs.arcs_json(), "circuits": want.len()}));
            }
        }
    }
}

pub fn c10(tier: &str, seed: u64) -> Check {
    let thorough = tier == "thorough";
    let mut spaces = Vec::new();
    for n in 1..=4 {
        spaces.push(c10_space(n, 99));
    }
    spaces.push(c10_space(5, 99));
    if thorough {
        spaces.push(c10_space(6, 9));
    }
    spaces.push(crate::props::fam::c10_family(thorough));
    spaces.push(crate::props::large::trav_big("johnson", thorough));
    let report = super::report(
        "C10",
        tier,
        seed,
        "bounded-exhaustive: every AdjacencyMap digraph on 0..n for n ≤ 4, and order 5 (≤ 12 arcs quick, all 2^20 thorough); Johnson75::circuits() must equal, as a multiset, the elementary circuits found by exhaustive simple-path extension over the reference arc set, each written from its smallest vertex; every returned sequence is checked to be a circuit. Beyond exhaustive reach: 17 structured shapes at orders 6, 7 (8 thorough; the complete digraph of order 7 has 2 365 circuits). Non-trivial: ≥ 2 circuits and, in an instrumented textbook simulation over the reference digraph, a vertex blocked by a failed search is later unblocked through a B-list cascade.",
        &["contiguous vertex ids only, as the property states", "order ≤ 5"],
        json!({"max_order": 5}),
    );
    Check { spaces, report, post: None }
}
