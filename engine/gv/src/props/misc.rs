//! C18 (DistanceMatrix metrics) and C19 (PredecessorTree search).

use crate::core::{guarded, Ctx, Space};
use crate::spacesx::*;
use crate::Check;
use graaf::*;
use serde_json::json;
use std::collections::BTreeSet;

// ------------------------------------------------------------------ C18

fn c18_check<W>(order: usize, entries: &[W], inf: W, ctx: &mut Ctx, name: &str)
where
    W: Copy + Ord + std::fmt::Debug,
{
    let det = || json!({"weight_type": name, "order": order, "infinity": format!("{inf:?}"), "rows": entries.chunks(order).map(|r| format!("{r:?}")).collect::<Vec<_>>()});
    // fill through IndexMut<(u,v)>, read back through the flat vector (addressing)
    let built = guarded(|| {
        let mut m = DistanceMatrix::new(order, inf);
        let fresh_ok = m.dist.len() == order * order && m.dist.iter().all(|x| *x == inf) && m.order == order && m.infinity == inf;
        for u in 0..order {
            for v in 0..order {
                m[(u, v)] = entries[u * order + v];
            }
        }
        (m, fresh_ok)
    });
    ctx.exec();
    let (m, fresh_ok) = match built {
        Ok(x) => x,
        Err(e) => {
            ctx.fail(format!("DistanceMatrix::new / IndexMut panicked: {e}"), det());
            return;
        }
    };
    if !fresh_ok {
        ctx.fail("DistanceMatrix::new(order, infinity) is not an order×order matrix filled with infinity", det());
        return;
    }
    if m.dist != entries {
        ctx.fail(format!("writing through IndexMut<(u, v)> produced flat contents {:?}; row-major addressing gives {entries:?}", m.dist), det());
        return;
    }
    for u in 0..order {
        for v in 0..order {
            if m[(u, v)] != entries[u * order + v] || m[u * order + v] != entries[u * order + v] {
                ctx.fail(format!("Index<({u}, {v})> does not address row {u}, column {v}"), det());
                return;
            }
        }
    }
    let ecc: Vec<W> = (0..order).map(|u| *entries[u * order..(u + 1) * order].iter().max().unwrap()).collect();
    let diam = *ecc.iter().max().unwrap();
    let minecc = *ecc.iter().min().unwrap();
    let center: Vec<usize> = (0..order).filter(|&u| ecc[u] == minecc).collect();
    let periphery: Vec<usize> = (0..order).filter(|&u| ecc[u] == diam).collect();
    let connected = ecc.iter().all(|e| *e != inf);
    ctx.execs_n(5);
    let r = guarded(|| (m.eccentricities().copied().collect::<Vec<W>>(), *m.diameter(), m.center(), m.periphery().collect::<Vec<usize>>(), m.is_connected()));
    match r {
        Err(e) => ctx.fail(format!("DistanceMatrix metric panicked: {e}"), det()),
        Ok((e, d, c, p, k)) => {
            if e != ecc {
                ctx.fail(format!("eccentricities() = {e:?}, row maxima are {ecc:?}"), det());
            } else if d != diam {
                ctx.fail(format!("diameter() = {d:?}, maximum eccentricity is {diam:?}"), det());
            } else if c != center {
                ctx.fail(format!("center() = {c:?}, vertices of minimal eccentricity are {center:?}"), det());
            } else if p != periphery {
                ctx.fail(format!("periphery() = {p:?}, vertices whose eccentricity equals the diameter are {periphery:?}"), det());
            } else if k != connected {
                ctx.fail(format!("is_connected() = {k}, definition gives {connected}"), det());
            }
        }
    }
    let tie_min = center.len() >= 2;
    let tie_max = periphery.len() >= 2;
    if tie_min {
        ctx.tag("ties_for_min");
    }
    if tie_max {
        ctx.tag("ties_for_max");
    }
    if entries.iter().all(|x| *x == inf) {
        ctx.tag("all_infinity");
    }
    if center != periphery && order >= 2 {
        ctx.nontrivial();
    }
}

fn c18_space_usize(order: usize, alpha: &'static [usize]) -> Space {
    let total = pow(alpha.len() as u64, order * order);
    Space::new("c18.usize", vec![order as u64, alpha.len() as u64, alpha.iter().map(|&x| x as u64 % 1000).sum()], total, format!("every DistanceMatrix<usize> of order {order} with entries from {alpha:?} (last = infinity)"), move |idx, ctx| {
        let inf = *alpha.last().unwrap();
        let mut code = idx;
        let entries: Vec<usize> = (0..order * order)
            .map(|_| {
                let d = code % alpha.len() as u64;
                code /= alpha.len() as u64;
                alpha[d as usize]
            })
            .collect();
        c18_check(order, &entries, inf, ctx, "usize");
        ctx.sample(|| json!({"type": "usize", "order": order, "entries_row_major": entries.iter().map(|&x| if x == inf { "inf".to_string() } else { x.to_string() }).collect::<Vec<_>>()}));
    })
}

fn c18_space_isize(order: usize, alpha: &'static [isize]) -> Space {
    let total = pow(alpha.len() as u64, order * order);
    Space::new("c18.isize", vec![order as u64, alpha.len() as u64, alpha.iter().map(|&x| (x % 1000 + 1000) as u64).sum()], total, format!("every DistanceMatrix<isize> of order {order} with entries from {alpha:?} (last = infinity)"), move |idx, ctx| {
        let inf = *alpha.last().unwrap();
        let mut code = idx;
        let entries: Vec<isize> = (0..order * order)
            .map(|_| {
                let d = code % alpha.len() as u64;
                code /= alpha.len() as u64;
                alpha[d as usize]
            })
            .collect();
        c18_check(order, &entries, inf, ctx, "isize");
        ctx.sample(|| json!({"type": "isize", "order": order, "entries_row_major": entries.iter().map(|&x| if x == inf { "inf".to_string() } else { x.to_string() }).collect::<Vec<_>>()}));
    })
}

/// The other index forms (flat usize, Range, RangeFull; read and write) address the same row-major
/// storage as (u, v), and metrics read what was written through any of them.
fn c18_index_forms<W>(order: usize, entries: &[W], inf: W, ctx: &mut Ctx, name: &str)
where
    W: Copy + Ord + std::fmt::Debug,
{
    let det = || json!({"weight_type": name, "order": order, "rows": entries.chunks(order).map(|r| format!("{r:?}")).collect::<Vec<_>>()});
    let n2 = order * order;
    ctx.exec();
    let r = guarded(|| {
        let mut a = DistanceMatrix::new(order, inf);
        for i in 0..n2 {
            a[i] = entries[i]; // IndexMut<usize>
        }
        let mut b = DistanceMatrix::new(order, inf);
        b[..].copy_from_slice(entries); // IndexMut<RangeFull>
        let mut c = DistanceMatrix::new(order, inf);
        for u in 0..order {
            c[u * order..(u + 1) * order].copy_from_slice(&entries[u * order..(u + 1) * order]); // IndexMut<Range>, row by row
        }
        let mut bad: Option<String> = None;
        for (nm, m) in [("IndexMut<usize>", &a), ("IndexMut<RangeFull>", &b), ("IndexMut<Range>", &c)] {
            for u in 0..order {
                for v in 0..order {
                    if m[(u, v)] != entries[u * order + v] && bad.is_none() {
                        bad = Some(format!("after writing through {nm}, Index<({u}, {v})> reads {:?}, row {u} column {v} holds {:?}", m[(u, v)], entries[u * order + v]));
                    }
                }
            }
            if &m[..] != entries && bad.is_none() {
                bad = Some(format!("after writing through {nm}, Index<RangeFull> reads {:?}", &m[..]));
            }
        }
        for lo in 0..=n2 {
            for hi in lo..=n2 {
                if &a[lo..hi] != &entries[lo..hi] && bad.is_none() {
                    bad = Some(format!("Index<Range> {lo}..{hi} reads {:?}, row-major contents are {:?}", &a[lo..hi], &entries[lo..hi]));
                }
            }
        }
        // metrics read what was written through the flat index
        let ecc: Vec<W> = (0..order).map(|u| *entries[u * order..(u + 1) * order].iter().max().unwrap()).collect();
        if a.eccentricities().copied().collect::<Vec<W>>() != ecc && bad.is_none() {
            bad = Some("eccentricities() after writing through IndexMut<usize> are not the row maxima".to_string());
        }
        // a single write through (u, v) changes exactly that cell
        for u in 0..order {
            for v in 0..order {
                let mut m = b.clone();
                m[(u, v)] = inf;
                for i in 0..n2 {
                    let want = if i == u * order + v { inf } else { entries[i] };
                    if m[i] != want && bad.is_none() {
                        bad = Some(format!("one write through IndexMut<({u}, {v})> changed flat cell {i}"));
                    }
                }
            }
        }
        bad
    });
    match r {
        Err(e) => ctx.fail(format!("DistanceMatrix index forms panicked: {e}"), det()),
        Ok(Some(b)) => ctx.fail(b, det()),
        Ok(None) => {}
    }
    // out-of-range indices panic (documented slice semantics), never read foreign memory
    ctx.execs_n(3);
    let m = guarded(|| {
        let mut m = DistanceMatrix::new(order, inf);
        m[..].copy_from_slice(entries);
        m
    });
    if let Ok(m) = m {
        if guarded(|| m[n2]).is_ok() || guarded(|| m[(order, 0)]).is_ok() || guarded(|| m[0..n2 + 1].len()).is_ok() {
            ctx.fail("an index just outside the matrix (flat order², (order, 0), range ..order²+1) did not panic", det());
        }
    }
}

/// pairwise-distinct contents: a transposed or mis-strided addressing cannot hide
fn c18_space_distinct() -> Space {
    Space::new("c18.distinct", vec![], 7, "matrices of orders 1..=7 with pairwise distinct entries (addressing check through every index form: (u,v), flat usize, every Range lo..hi, RangeFull, read and write; single-cell writes; out-of-range indices panic) and DistanceMatrix::new(0, _) panics", move |idx, ctx| {
        let order = idx as usize + 1;
        let entries: Vec<usize> = (0..order * order).map(|i| i * 3 + 1).collect();
        c18_check(order, &entries, usize::MAX, ctx, "usize");
        let entries_i: Vec<isize> = (0..order * order).map(|i| (i as isize) * 5 - 7).collect();
        c18_check(order, &entries_i, isize::MAX, ctx, "isize");
        c18_index_forms(order, &entries, usize::MAX, ctx, "usize");
        c18_index_forms(order, &entries_i, isize::MAX, ctx, "isize");
        ctx.exec();
        if guarded(|| DistanceMatrix::<usize>::new(0, usize::MAX)).is_ok() {
            ctx.fail("DistanceMatrix::new(0, infinity) did not panic", json!({}));
        }
        ctx.nontrivial();
        ctx.sample(|| json!({"order": order, "entries": "pairwise distinct"}));
    })
}

static U012I: [usize; 4] = [0, 1, 2, usize::MAX];
static U01I: [usize; 3] = [0, 1, usize::MAX];
static IM102I: [isize; 4] = [-1, 0, 2, isize::MAX];
static IM10I: [isize; 3] = [-1, 0, isize::MAX];
static U03_9: [usize; 3] = [0, 3, 9];

pub fn c18(tier: &str, seed: u64) -> Check {
    let thorough = tier == "thorough";
    let mut spaces = vec![c18_space_distinct()];
    for o in 1..=3 {
        spaces.push(c18_space_usize(o, &U012I));
        spaces.push(c18_space_isize(o, &IM102I));
    }
    // a finite infinity value: entries ≤ infinity, infinity not the type's MAX
    spaces.push(c18_space_usize(2, &U03_9));
    spaces.push(c18_space_usize(3, &U03_9));
    spaces.push(c18_space_usize(4, &U01I));
    if thorough {
        spaces.push(c18_space_isize(4, &IM10I));
        spaces.push(c18_space_usize(4, &U03_9));
    }
    spaces.push(crate::props::large::c18_big());
    let report = super::report(
        "C18",
        tier,
        seed,
        "bounded-exhaustive: every matrix of order ≤ 3 over {0,1,2,∞} (usize) and {-1,0,2,∞} (isize) and over {0,3,9} with a finite infinity 9; order 4 over three-letter alphabets in the thorough tier (3^16 each); plus pairwise-distinct matrices of orders 1..7 for the addressing (every index form — (u,v), flat usize, every Range, RangeFull — read and write, single-cell writes, metrics after flat writes, out-of-range indices panic). Filled through IndexMut<(u,v)>, read back through the flat vector and Index; eccentricities / diameter / center / periphery / is_connected against row maxima etc.; new(order, ∞) shape; new(0) panics. FloydWarshall outputs are fed through the same oracle by C08's matrices via the public fields. Non-trivial: center != periphery.",
        &["entries never exceed the infinity value, as the property requires"],
        json!({"max_order": if thorough {4} else {3}}),
    );
    Check { spaces, report, post: None }
}

// ------------------------------------------------------------------ C19

/// Reference: follow predecessor links from s with a visited set.
fn ref_search(pred: &[Option<usize>], s: usize, is_target: &dyn Fn(usize, Option<usize>) -> bool) -> Option<Vec<usize>> {
    let mut path = vec![s];
    let mut seen = BTreeSet::from([s]);
    let mut cur = s;
    loop {
        if is_target(cur, pred[cur]) {
            return Some(path);
        }
        match pred[cur] {
            None => return None,
            Some(p) => {
                if !seen.insert(p) {
                    return None;
                }
                path.push(p);
                cur = p;
            }
        }
    }
}

fn c19_space(n: usize) -> Space {
    let total = pow(n as u64 + 1, n);
    Space::new("c19.search", vec![n as u64], total, format!("every predecessor vector of length {n} over {{None, 0..{n}}} × every start × every target vertex, every target subset predicate and the predicate 'has no predecessor'"), move |idx, ctx| {
        let mut code = idx;
        let pred: Vec<Option<usize>> = (0..n)
            .map(|_| {
                let d = (code % (n as u64 + 1)) as usize;
                code /= n as u64 + 1;
                if d == 0 {
                    None
                } else {
                    Some(d - 1)
                }
            })
            .collect();
        let tree = PredecessorTree::from(pred.clone());
        let det = |s: usize, t: String| json!({"pred": pred, "start": s, "target": t});
        // the same tree built through new(n) + IndexMut is == the From<Vec> one; Index and
        // into_iter read the links back unchanged
        ctx.exec();
        let built = guarded(|| {
            let mut t2 = PredecessorTree::new(n);
            let fresh = (0..n).all(|v| t2[v].is_none());
            for (v, p) in pred.iter().enumerate() {
                t2[v] = *p;
            }
            fresh && t2 == tree && (0..n).all(|v| tree[v] == pred[v]) && t2.into_iter().collect::<Vec<_>>() == pred
        });
        if built != Ok(true) {
            ctx.fail(format!("PredecessorTree::new({n}) + IndexMut / Index / into_iter do not reproduce the predecessor vector: {built:?}"), json!({"pred": pred}));
            return;
        }
        // cyclic or self-referential?
        let cyclic = (0..n).any(|s| {
            let mut seen = BTreeSet::from([s]);
            let mut c = s;
            loop {
                match pred[c] {
                    None => break false,
                    Some(p) => {
                        if !seen.insert(p) {
                            break true;
                        }
                        c = p;
                    }
                }
            }
        });
        if cyclic {
            ctx.nontrivial();
        }
        for s in 0..n {
            // search(s, t) for every t (and one t not in the tree's chain space: n)
            for t in 0..=n {
                ctx.exec();
                let want = ref_search(&pred, s, &|v, _| v == t);
                match guarded(|| tree.search(s, t)) {
                    Err(e) => ctx.fail(format!("PredecessorTree::search({s}, {t}) panicked: {e}"), det(s, t.to_string())),
                    Ok(got) => {
                        if got != want {
                            ctx.fail(format!("search({s}, {t}) = {got:?}; following predecessor links gives {want:?}"), det(s, t.to_string()));
                        }
                    }
                }
            }
            // search_by with every subset predicate
            let subsets = if n <= 5 { 1u64 << n } else { 0 };
            for tm in 0..subsets {
                ctx.exec();
                let want = ref_search(&pred, s, &|v, _| tm >> v & 1 == 1);
                match guarded(|| tree.search_by(s, |&v, _| tm >> v & 1 == 1)) {
                    Err(e) => ctx.fail(format!("search_by({s}, subset {tm:b}) panicked: {e}"), det(s, format!("subset {:?}", subset_vec(tm, n)))),
                    Ok(got) => {
                        if got != want {
                            ctx.fail(format!("search_by({s}, v ∈ {:?}) = {got:?}; following predecessor links gives {want:?}", subset_vec(tm, n)), det(s, format!("subset {:?}", subset_vec(tm, n))));
                        }
                    }
                }
            }
            // predicates over the predecessor argument
            ctx.exec();
            let want = ref_search(&pred, s, &|_, p| p.is_none());
            match guarded(|| tree.search_by(s, |_, p| p.is_none())) {
                Err(e) => ctx.fail(format!("search_by({s}, has no predecessor) panicked: {e}"), det(s, "no predecessor".into())),
                Ok(got) => {
                    if got != want {
                        ctx.fail(format!("search_by({s}, |_, p| p.is_none()) = {got:?}; following predecessor links gives {want:?}"), det(s, "no predecessor".into()));
                    }
                }
            }
            ctx.exec();
            let want = ref_search(&pred, s, &|v, p| p == Some(v) || p.is_some_and(|p| p < v));
            match guarded(|| tree.search_by(s, |&v, p| *p == Some(v) || p.is_some_and(|p| p < v))) {
                Err(e) => ctx.fail(format!("search_by({s}, pred ≤ vertex) panicked: {e}"), det(s, "pred <= v".into())),
                Ok(got) => {
                    if got != want {
                        ctx.fail(format!("search_by({s}, |v, p| p ≤ v) = {got:?}; following predecessor links gives {want:?}"), det(s, "pred <= v".into()));
                    }
                }
            }
        }
        ctx.sample(|| json!({"pred": pred, "starts": "all", "targets": "all vertices, all subsets, 'no predecessor', 'pred <= v'"}));
    })
}

pub fn c19(tier: &str, seed: u64) -> Check {
    let thorough = tier == "thorough";
    let mut spaces = Vec::new();
    for n in 1..=5 {
        spaces.push(c19_space(n));
    }
    spaces.push(c19_space(6));
    spaces.push(c19_space(7));
    if thorough {
        spaces.push(c19_space(8));
    }
    spaces.push(crate::props::large::c19_big(thorough));
    spaces.push(crate::props::huge::space("C19"));
    let report = super::report(
        "C19",
        tier,
        seed,
        "bounded-exhaustive: every predecessor vector of length n ≤ 6 (7 thorough; (n+1)^n vectors, cyclic and self-referential included) × every start × every target vertex (plus the absent id n) × for n ≤ 5 every subset predicate × two predicates over the predecessor argument; result compared with a link-following reference with a visited set (Some(path) iff a target is met before the chain ends or repeats; path from s to the first target). Termination: a per-case watchdog turns a stalled search into a violation naming the case. Non-trivial: the vector contains a cycle or self-reference.",
        &["entries in range, as the property requires (out-of-range entries belong to C13)"],
        json!({"max_len": if thorough {7} else {6}}),
    );
    Check { spaces, report, post: None }
}
