//! C13 — memory safety and leak freedom of the safe API: supervisor of the
//! `memprobe` program enumerator (engine/memprobe). Every short program of the
//! catalogue is executed under up to four observers:
//!   native   — debug-assertion build: abort / fatal signal = violation
//!   growth   — counting allocator: live bytes must not grow between 3 and 6 repetitions
//!   valgrind — memcheck, exit on first error
//!   miri     — Miri (UB, data races between the routines' worker threads)
//! A child that dies between "PROBE i" and "DONE i" is attributed to probe i
//! and the group is resumed after it.

use crate::core::{CaseId, Ctx, Fail};
use crate::Check;
use serde_json::{json, Value};
use std::collections::BTreeMap;
use std::process::{Command, Stdio};
use std::sync::atomic::{AtomicUsize, Ordering};
use std::sync::{Arc, Mutex};
use std::time::Instant;

const DIR: &str = "/verif/engine/memprobe";
const BIN: &str = "/verif/engine/memprobe/target/release/memprobe";

#[derive(Clone, Copy, Debug, PartialEq, Eq, PartialOrd, Ord)]
pub enum Obs {
    Native,
    Growth,
    Valgrind,
    Miri,
}

impl Obs {
    fn name(self) -> &'static str {
        match self {
            Obs::Native => "native",
            Obs::Growth => "growth",
            Obs::Valgrind => "valgrind",
            Obs::Miri => "miri",
        }
    }
    fn command(self, level: usize, g: usize, from: usize, to: usize) -> Command {
        // every child runs under coreutils `timeout`: a program that never returns is
        // attributed to the announced probe (exit status 124)
        let mut c = Command::new("timeout");
        c.args(["-k", "5", match self {
            Obs::Native => "120",
            Obs::Growth => "300",
            Obs::Valgrind => "900",
            Obs::Miri => "2400",
        }]);
        match self {
            Obs::Native | Obs::Growth => {
                c.arg(BIN);
            }
            Obs::Valgrind => {
                c.args(["valgrind", "-q", "--error-exitcode=99", "--exit-on-first-error=yes", "--leak-check=no", BIN]);
            }
            Obs::Miri => {
                c.args(["cargo", "+nightly", "miri", "run", "--offline", "-q", "--target-dir", "/verif/engine/target-miri", "--"]);
                c.current_dir(DIR);
                c.env("MIRIFLAGS", "-Zmiri-disable-isolation -Zmiri-permissive-provenance -Zmiri-ignore-leaks");
            }
        }
        c.arg(if self == Obs::Growth { "leak" } else { "run" });
        c.args([g.to_string(), from.to_string(), to.to_string(), "1".to_string(), format!("--level={level}")]);
        c.env("MEMPROBE_LEVEL", level.to_string());
        c.env("CARGO_NET_OFFLINE", "true");
        c.stdout(Stdio::piped()).stderr(Stdio::piped());
        c
    }
}

#[derive(Clone, Debug)]
pub struct GroupInfo {
    pub idx: usize,
    pub total: usize,
    pub ood: usize,
    pub name: String,
}

pub fn groups(level: usize) -> Result<Vec<GroupInfo>, String> {
    let out = Command::new(BIN).arg("groups").arg(format!("--level={level}")).env("MEMPROBE_LEVEL", level.to_string()).output().map_err(|e| format!("cannot run {BIN}: {e}"))?;
    let text = String::from_utf8_lossy(&out.stdout);
    let mut v = Vec::new();
    for l in text.lines() {
        let mut it = l.splitn(4, ' ');
        let idx = it.next().and_then(|x| x.parse().ok()).ok_or("bad groups line")?;
        let total = it.next().and_then(|x| x.parse().ok()).ok_or("bad groups line")?;
        let ood = it.next().and_then(|x| x.parse().ok()).ok_or("bad groups line")?;
        v.push(GroupInfo { idx, total, ood, name: it.next().unwrap_or("").to_string() });
    }
    if v.is_empty() {
        return Err("memprobe lists no groups".into());
    }
    Ok(v)
}

#[derive(Debug, Clone)]
pub struct Finding {
    pub obs: Obs,
    pub level: usize,
    pub group: String,
    pub g: usize,
    pub probe: usize,
    pub name: String,
    pub what: String,
    pub detail: String,
}

#[derive(Default)]
pub struct PassOut {
    pub truncated: u64,
    pub probes: u64,
    pub panics: u64,
    pub findings: Vec<Finding>,
    pub errors: Vec<String>,
}

/// Runs probes [from, to) of group g under `obs`, resuming after each probe
/// that kills the child.
fn run_item(obs: Obs, level: usize, gi: &GroupInfo, from: usize, to: usize, out: &Mutex<PassOut>) {
    let mut start = from;
    let mut restarts = 0;
    while start < to {
        let child = obs.command(level, gi.idx, start, to).output();
        let o = match child {
            Ok(o) => o,
            Err(e) => {
                out.lock().unwrap().errors.push(format!("{}: cannot start child: {e}", obs.name()));
                return;
            }
        };
        let text = String::from_utf8_lossy(&o.stdout).to_string();
        let err = String::from_utf8_lossy(&o.stderr).to_string();
        let mut pending: Option<(usize, String)> = None;
        let mut ended = false;
        let mut local = PassOut::default();
        for l in text.lines() {
            if let Some(r) = l.strip_prefix("PROBE ") {
                let mut it = r.splitn(3, ' ');
                let _g = it.next();
                let i: usize = it.next().and_then(|x| x.parse().ok()).unwrap_or(0);
                pending = Some((i, it.next().unwrap_or("").to_string()));
            } else if let Some(r) = l.strip_prefix("DONE ") {
                let mut it = r.splitn(3, ' ');
                let _g = it.next();
                let i: usize = it.next().and_then(|x| x.parse().ok()).unwrap_or(0);
                let verdict = it.next().unwrap_or("");
                local.probes += 1;
                if verdict == "panic" {
                    local.panics += 1;
                }
                if let Some(rest) = verdict.strip_prefix("LEAK") {
                    let name = pending.as_ref().map_or(String::new(), |p| p.1.clone());
                    local.findings.push(Finding { obs, level, group: gi.name.clone(), g: gi.idx, probe: i, name, what: "live heap bytes grow with every repetition of this program (leak)".into(), detail: format!("bytes gained over 3 repetitions, twice:{rest}") });
                }
                pending = None;
            } else if l.starts_with("END ") {
                ended = true;
            }
        }
        let mut o2 = out.lock().unwrap();
        o2.probes += local.probes;
        o2.panics += local.panics;
        o2.findings.extend(local.findings);
        if ended && pending.is_none() {
            return;
        }
        match pending {
            Some((i, name)) => {
                let tail: String = {
                    let lines: Vec<&str> = err.lines().filter(|l| !l.trim().is_empty()).collect();
                    let pos = lines.iter().position(|l| l.contains("error:") || l.contains("Invalid ") || l.contains("panicked") || l.contains("unsafe precondition"));
                    let from = pos.unwrap_or(lines.len().saturating_sub(12));
                    lines[from..lines.len().min(from + 14)].join("\n")
                };
                let timed_out = o.status.code() == Some(124) || o.status.code() == Some(137);
                let what = match obs {
                    _ if timed_out => "this program did not return within the time limit of its observer (non-termination)",
                    Obs::Miri => "Miri stopped inside this program (undefined behaviour, data race or abort)",
                    Obs::Valgrind => "valgrind memcheck reported an invalid access inside this program",
                    _ => "the process died inside this program (abort or fatal signal instead of a return or a Rust panic)",
                };
                o2.probes += 1;
                o2.findings.push(Finding { obs, level, group: gi.name.clone(), g: gi.idx, probe: i, name, what: format!("{what}; child status {:?}", o.status.code().map_or_else(|| "signal".to_string(), |c| c.to_string())), detail: tail });
                start = i + 1;
                restarts += 1;
                if restarts > 6 {
                    // enough counterexamples from this item; the run is a failure anyway
                    o2.truncated += 1;
                    return;
                }
            }
            None => {
                o2.errors.push(format!("{} {} [{start},{to}): child ended with {:?} outside any probe: {}", obs.name(), gi.name, o.status, err.lines().rev().take(6).collect::<Vec<_>>().join(" | ")));
                return;
            }
        }
    }
}

/// Runs the groups `sel` of catalogue `level` under `obs` on `threads` workers.
pub fn run_pass(obs: Obs, level: usize, sel: &dyn Fn(&GroupInfo) -> bool, items_per_group: usize, threads: usize) -> Result<(PassOut, Vec<GroupInfo>), String> {
    let gs: Vec<GroupInfo> = groups(level)?.into_iter().filter(|g| g.name != "canary" && sel(g)).collect();
    let mut items: Vec<(GroupInfo, usize, usize)> = Vec::new();
    for g in &gs {
        // `items_per_group` is the target number of programs per child process; the
        // large-order programs are two orders of magnitude slower under Miri
        let sz = if g.name == "large" && obs == Obs::Miri { 3 } else { items_per_group.max(1) };
        let mut f = 0;
        while f < g.total {
            items.push((g.clone(), f, (f + sz).min(g.total)));
            f += sz;
        }
    }
    // biggest items first
    items.sort_by_key(|(_, f, t)| std::cmp::Reverse(t - f));
    let items = Arc::new(items);
    let next = Arc::new(AtomicUsize::new(0));
    let out = Arc::new(Mutex::new(PassOut::default()));
    let mut hs = Vec::new();
    for _ in 0..threads.max(1) {
        let (items, next, out) = (items.clone(), next.clone(), out.clone());
        hs.push(std::thread::spawn(move || loop {
            let i = next.fetch_add(1, Ordering::Relaxed);
            if i >= items.len() {
                break;
            }
            let (g, f, t) = &items[i];
            run_item(obs, level, g, *f, *t, &out);
        }));
    }
    for h in hs {
        let _ = h.join();
    }
    let out = Arc::try_unwrap(out).ok().unwrap().into_inner().unwrap();
    Ok((out, gs))
}

/// Every observer must flag its canary, else the pass proves nothing.
fn canaries(obs_list: &[Obs]) -> Result<Value, String> {
    let gs = groups(0)?;
    let c = gs.iter().find(|g| g.name == "canary").ok_or("no canary group")?.clone();
    let mut res = BTreeMap::new();
    let mut hs = Vec::new();
    for &obs in obs_list {
        let c = c.clone();
        hs.push(std::thread::spawn(move || {
            let out = Mutex::new(PassOut::default());
            let probe = match obs {
                Obs::Native => 2,
                Obs::Growth => 1,
                Obs::Valgrind | Obs::Miri => 0,
            };
            // the wrong program and the correct program (index 3) in one child where the
            // observer survives the first (growth), else in two
            run_item(obs, 0, &c, probe, probe + 1, &out);
            run_item(obs, 0, &c, 3, 4, &out);
            let o = out.into_inner().unwrap();
            let flagged = o.findings.iter().any(|f| f.probe == probe);
            let clean_ok = !o.findings.iter().any(|f| f.probe == 3) && o.errors.is_empty();
            (obs, flagged, clean_ok, o.errors)
        }));
    }
    for h in hs {
        let (obs, flagged, clean_ok, errors) = h.join().map_err(|_| "canary thread panicked".to_string())?;
        if !flagged || !clean_ok {
            return Err(format!("observer {} failed its canary (flagged wrong code: {flagged}, passed correct code: {clean_ok}); errors {errors:?}", obs.name()));
        }
        res.insert(obs.name().to_string(), json!({"wrong_code_flagged": flagged, "correct_code_passed": clean_ok}));
    }
    Ok(json!(res))
}

pub fn run_all(tier: &str, ctx: &mut Ctx) -> Value {
    let thorough = tier == "thorough";
    let threads = std::thread::available_parallelism().map_or(8, |n| n.get());
    let t0 = Instant::now();
    // build the Miri flavour once, serially (16 concurrent cargo invocations would fight over the lock)
    let canary_group = groups(0).ok().and_then(|g| g.iter().find(|x| x.name == "canary").map(|x| x.idx)).unwrap_or(0).to_string();
    let pre = Command::new("cargo").args(["+nightly", "miri", "run", "--offline", "-q", "--target-dir", "/verif/engine/target-miri", "--", "run", &canary_group, "3", "4"]).current_dir(DIR).env("MEMPROBE_LEVEL", "0").env("CARGO_NET_OFFLINE", "true").env("MIRIFLAGS", "-Zmiri-disable-isolation -Zmiri-permissive-provenance -Zmiri-ignore-leaks").output();
    match &pre {
        Ok(o) if o.status.success() => {}
        Ok(o) => {
            eprintln!("gv: Miri build of memprobe failed (machinery error):\n{}", String::from_utf8_lossy(&o.stderr).lines().rev().take(15).collect::<Vec<_>>().join("\n"));
            std::process::exit(2);
        }
        Err(e) => {
            eprintln!("gv: cannot run cargo miri: {e} (machinery error)");
            std::process::exit(2);
        }
    }
    let miri_build_s = t0.elapsed().as_secs_f64();
    let can = match canaries(&[Obs::Native, Obs::Growth, Obs::Valgrind, Obs::Miri]) {
        Ok(v) => v,
        Err(e) => {
            eprintln!("gv: {e} (machinery error)");
            std::process::exit(2);
        }
    };
    let all = |_: &GroupInfo| true;
    let (native_level, miri_level) = if thorough { (2, 1) } else { (1, 0) };
    let mut passes: Vec<Value> = Vec::new();
    let mut findings: Vec<Finding> = Vec::new();
    let mut errors: Vec<String> = Vec::new();
    let mut programs = 0u64;
    let mut ood_programs = 0u64;
    let mut executions = 0u64;
    let mut run = |obs: Obs, level: usize, sel: &dyn Fn(&GroupInfo) -> bool, ipg: usize, label: &str| {
        let t = Instant::now();
        match run_pass(obs, level, sel, ipg, threads) {
            Ok((o, gs)) => {
                let total: usize = gs.iter().map(|g| g.total).sum();
                let ood: usize = gs.iter().map(|g| g.ood).sum();
                if o.probes != total as u64 && o.errors.is_empty() && o.truncated == 0 {
                    errors.push(format!("{label}: {} of {total} programs reported", o.probes));
                }
                passes.push(json!({"observer": obs.name(), "catalogue_level": level, "label": label, "groups": gs.len(), "programs": total, "programs_with_out_of_domain_argument_or_noncontiguous_ids": ood, "programs_run": o.probes, "ended_in_rust_panic": o.panics, "findings": o.findings.len(), "wall_s": (t.elapsed().as_secs_f64() * 10.0).round() / 10.0}));
                executions += o.probes * if obs == Obs::Growth { 8 } else { 1 };
                if obs == Obs::Native {
                    programs += total as u64;
                    ood_programs += ood as u64;
                }
                findings.extend(o.findings);
                errors.extend(o.errors);
            }
            Err(e) => errors.push(format!("{label}: {e}")),
        }
    };
    run(Obs::Native, native_level, &all, 4000, "whole catalogue, exit status");
    run(Obs::Growth, native_level, &all, 4000, "whole catalogue, heap growth");
    run(Obs::Valgrind, if thorough { 2 } else { 1 }, &all, if thorough { 4000 } else { 1200 }, "whole catalogue, memcheck");
    if thorough {
        run(Obs::Miri, miri_level, &all, 1500, "catalogue level 1 under Miri");
    } else {
        // quick: the mini catalogue, restricted to the groups that reach raw-pointer / unchecked code:
        // traversals and algorithms, operators, generators, conversions, user-built trees and matrices,
        // overflowing orders, the threaded routines, and everything on non-contiguous AdjacencyMap ids
        let sel = |g: &GroupInfo| {
            matches!(g.name.as_str(), "algo/AL" | "algo/AM-sparse" | "dijkstra/WU" | "bfm-fw/WI" | "johnson/AM" | "johnson/AM-sparse" | "generators" | "conversions" | "conversions/AM-sparse" | "predecessor-tree" | "distance-matrix" | "overflow" | "threaded" | "large" | "unweighted/AL" | "unweighted/AM" | "unweighted/AM-sparse" | "common/AM-sparse" | "weighted/WU")
        };
        run(Obs::Miri, miri_level, &sel, 120, "mini catalogue (raw-pointer groups) under Miri");
    }
    if !errors.is_empty() {
        eprintln!("gv: C13 machinery errors:\n  {}", errors.join("\n  "));
        std::process::exit(2);
    }
    ctx.cases += programs;
    ctx.execs += executions;
    ctx.nontrivial_cases += ood_programs;
    // de-duplicate findings per (group, probe): one program flagged by several observers is one violation
    let mut seen: BTreeMap<(String, String), Vec<&Finding>> = BTreeMap::new();
    for f in &findings {
        seen.entry((f.group.clone(), f.name.clone())).or_default().push(f);
    }
    for ((group, name), fs) in seen.iter().take(12) {
        let f0 = fs[0];
        ctx.fail_count += 1;
        ctx.fails.push(Fail {
            case: CaseId { kind: "post:mem".into(), p: vec![f0.level as u64, f0.g as u64], idx: f0.probe as u64 },
            what: format!("[{}] {} — {}", fs.iter().map(|f| f.obs.name()).collect::<Vec<_>>().join("+"), name, f0.what),
            known: None,
            detail: json!({"group": group, "program": name, "observers": fs.iter().map(|f| json!({"observer": f.obs.name(), "level": f.level, "what": f.what, "report": f.detail})).collect::<Vec<_>>()}),
        });
    }
    if seen.len() > 12 {
        ctx.fail_count += (seen.len() - 12) as u64;
    }
    ctx.samples.push(json!({"program": "AL V=[0, 1] A=[(0, 1)] :: Bfs::new([0, 1000]) iterate, next() again, clone half-way", "observers": ["native", "growth", "valgrind", "miri"], "note": "one program of the catalogue; `memprobe groups` lists all of them"}));
    json!({"program_passes": passes, "canaries": can, "miri_build_s": miri_build_s, "distinct_programs_flagged": seen.len()})
}

pub fn c13(tier: &str, seed: u64) -> Check {
    let report = super::report(
        "C13",
        tier,
        seed,
        "program enumeration: every short program `build G ; call E(args) [; call E2]` of a catalogue (engine/memprobe) — G = every digraph of order ≤ 2 (3 thorough) in six representations plus AdjacencyMap on non-contiguous vertex sets with every arc set; E = every public constructor, generator, conversion, query, operator, traversal / algorithm constructor and method, PredecessorTree and DistanceMatrix method; vertex arguments from {0, n-1, n, n+1, 1000}; sources = ∅, singletons and pairs of those; invalid row vectors / arc sequences; p ∈ {-0.1 … NaN}; overflowing orders; user-built predecessor vectors over {None, in range, len, 1000}; public fields overwritten; second calls and half-consumed clones; the threaded routines with 1-3 workers — is executed under four observers: debug-assertion build (abort/signal), counting allocator (heap growth between 3 and 6 repetitions), valgrind memcheck, and Miri (UB and data races). A program is non-trivial when it has an out-of-domain argument or a non-contiguous digraph. Canaries (deliberately wrong in-harness code) must be flagged by every observer on every run.",
        &[
            "programs are at most two calls long; orders ≤ 3",
            "Miri runs one schedule of the worker threads per program; Miri loses provenance precision where the code casts pointers through usize (-Zmiri-permissive-provenance)",
            "return values are not judged here (other checks do that)",
        ],
        json!({"native_catalogue_level": if tier == "thorough" {2} else {1}, "miri_catalogue_level": if tier == "thorough" {1} else {0}}),
    );
    let tier2 = tier.to_string();
    Check { spaces: vec![], report, post: Some(Box::new(move |ctx| run_all(&tier2, ctx))) }
}

/// Replays one program under all four observers.
pub fn replay(case: &CaseId) -> i32 {
    let level = case.p.first().copied().unwrap_or(1) as usize;
    let g = case.p.get(1).copied().unwrap_or(0) as usize;
    let i = case.idx as usize;
    let Ok(gs) = groups(level) else { return 2 };
    let Some(gi) = gs.iter().find(|x| x.idx == g) else { return 2 };
    let mut bad = 0;
    for obs in [Obs::Native, Obs::Growth, Obs::Valgrind, Obs::Miri] {
        let out = Mutex::new(PassOut::default());
        run_item(obs, level, gi, i, i + 1, &out);
        let o = out.into_inner().unwrap();
        println!("{}: {} finding(s){}", obs.name(), o.findings.len(), if o.errors.is_empty() { String::new() } else { format!(" errors {:?}", o.errors) });
        for f in &o.findings {
            println!("  {} — {}\n{}", f.name, f.what, f.detail);
            bad += 1;
        }
    }
    i32::from(bad > 0)
}
