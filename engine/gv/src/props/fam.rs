//! Structured families for orders where 2^(n(n-1)) is out of reach (6..=11).
//! A fixed catalogue, enumerated completely: every family × every order ×
//! every listed source set. They reach what the exhaustive orders cannot:
//! more than 12 arcs (the unrolled Bellman-Ford-Moore loop, deep heaps), long
//! chains, many circuits.

use crate::core::{Ctx, Space};
use crate::props::trav::{bfs_case, dfs_case, johnson_check, tarjan_check};
use crate::props::weighted::{c05_bfs_case, c05_dijkstra_case, c07_case_with, c08_case_checked, dijkstra_case, NMAX, WG};
use crate::refm::Abs;
use crate::reps::*;
use serde_json::json;
use std::sync::Arc;

/// unweighted shapes on 0..n
pub fn shapes(n: usize) -> Vec<(String, Abs)> {
    let pairs = Abs::pairs(n);
    let mut v: Vec<(String, Abs)> = Vec::new();
    let mut add = |name: &str, arcs: Vec<(usize, usize)>| v.push((name.to_string(), Abs::from_arcs(n, arcs)));
    add("path", (0..n - 1).map(|u| (u, u + 1)).collect());
    add("reverse path", (0..n - 1).map(|u| (u + 1, u)).collect());
    add("circuit", (0..n).map(|u| (u, (u + 1) % n)).collect());
    add("cycle", (0..n).flat_map(|u| [(u, (u + 1) % n), ((u + 1) % n, u)]).collect());
    add("complete", pairs.clone());
    add("transitive tournament", pairs.iter().copied().filter(|&(u, v)| u < v).collect());
    add("reverse transitive tournament", pairs.iter().copied().filter(|&(u, v)| u > v).collect());
    add("star out", (1..n).map(|u| (0, u)).collect());
    add("star both", (1..n).flat_map(|u| [(0, u), (u, 0)]).collect());
    add("binary tree", (1..n).map(|u| ((u - 1) / 2, u)).collect());
    add("binary tree with back arcs to the root", (1..n).flat_map(|u| [((u - 1) / 2, u), (u, 0)]).collect());
    add("two circuits sharing vertex 0", {
        let h = n / 2;
        let mut a: Vec<(usize, usize)> = (0..h).map(|u| (u, (u + 1) % (h + 1))).collect();
        a.push((h, 0));
        a.push((0, h + 1));
        for u in h + 1..n - 1 {
            a.push((u, u + 1));
        }
        a.push((n - 1, 0));
        a.retain(|&(x, y)| x != y);
        a
    });
    add("band 2", pairs.iter().copied().filter(|&(u, v)| v == (u + 1) % n || v == (u + 2) % n).collect());
    add("layered", pairs.iter().copied().filter(|&(u, v)| v / 3 == u / 3 + 1).collect());
    add("mod 3 pattern", pairs.iter().copied().filter(|&(u, v)| (u * 7 + v * 3) % 3 == 0).collect());
    add("two components", pairs.iter().copied().filter(|&(u, v)| (u < n / 2) == (v < n / 2) && (v == u + 1 || (u + 1) % (n / 2) == v % (n / 2) && u > v)).collect());
    add("descending chain with shortcuts", pairs.iter().copied().filter(|&(u, v)| u > v && (u - v == 1 || v == 0)).collect());
    v
}

/// weights for a shape: several deterministic patterns. `negative`: reweighted
/// with vertex potentials (w' = w + p(u) - p(v)), which keeps every circuit
/// weight unchanged (hence non-negative) while making many arcs negative.
pub fn weighted(n: usize, negative: bool) -> Vec<(String, WG)> {
    let mut out = Vec::new();
    for (name, abs) in shapes(n) {
        for pat in 0..4 {
            let mut g = WG { n, has: [[false; NMAX]; NMAX], w: [[0; NMAX]; NMAX], arcs: 0 };
            for &(u, v) in &abs.a {
                let base: i64 = match pat {
                    0 => 1,
                    1 => ((u * 7 + v * 3) % 5) as i64,
                    2 => if v > u { ((v - u) * (v - u)) as i64 } else { 1 + (u - v) as i64 },
                    _ => ((n - u) * 3 % 7 + (v % 2) * 4) as i64,
                };
                let w = if negative { base + (u as i64 * 5 % 11) - (v as i64 * 5 % 11) } else { base };
                g.has[u][v] = true;
                g.w[u][v] = w;
                g.arcs += 1;
            }
            out.push((format!("{name}, weight pattern {pat}{}", if negative { " with potentials" } else { "" }), g));
        }
    }
    out
}

fn source_sets(n: usize) -> Vec<Vec<usize>> {
    let mut s: Vec<Vec<usize>> = (0..n).map(|v| vec![v]).collect();
    s.push(vec![]);
    s.push(vec![0, n - 1]);
    s.push(vec![n - 1, 0]);
    s.push(vec![1, n / 2, n - 1]);
    s.push((0..n).collect());
    s.push((0..n).rev().collect());
    s
}

const ORDERS_Q: [usize; 3] = [6, 8, 11];
const ORDERS_T: [usize; 6] = [6, 7, 8, 9, 10, 11];

fn orders(thorough: bool) -> Vec<usize> {
    if thorough { ORDERS_T.to_vec() } else { ORDERS_Q.to_vec() }
}

pub fn c03_family(thorough: bool) -> Space {
    let mut cases: Vec<(usize, usize)> = Vec::new();
    for n in orders(thorough) {
        for f in 0..weighted(n, false).len() {
            cases.push((n, f));
        }
    }
    let cases = Arc::new(cases);
    Space::new("c03.family", vec![u64::from(thorough)], cases.len() as u64, format!("Dijkstra on structured weighted digraphs of orders {:?} (17 shapes × 4 weight patterns; up to 110 arcs), every single source and six source sets", orders(thorough)), move |idx, ctx| {
        let (n, f) = cases[idx as usize];
        let (name, g) = weighted(n, false).swap_remove(f);
        let d = g.build_wu();
        for s in source_sets(n) {
            dijkstra_case(&g, &d, &s, ctx);
        }
        ctx.nontrivial();
        ctx.sample(|| json!({"order": n, "family": name, "arcs": g.arcs}));
    })
}

pub fn c05_family(thorough: bool) -> Space {
    let ords: Vec<usize> = if thorough { vec![6, 7, 8, 9] } else { vec![6, 8] };
    let mut cases: Vec<(usize, usize)> = Vec::new();
    for &n in &ords {
        for f in 0..weighted(n, false).len() {
            cases.push((n, f));
        }
    }
    let cases = Arc::new(cases);
    Space::new("c05.family", vec![u64::from(thorough)], cases.len() as u64, format!("BfsPred / DijkstraPred on structured digraphs of orders {ords:?}, every single source and two source pairs, every target predicate (2^n subsets)"), move |idx, ctx| {
        let (n, f) = cases[idx as usize];
        let (name, g) = weighted(n, false).swap_remove(f);
        let d = g.build_wu();
        let mut srcs: Vec<Vec<usize>> = (0..n).map(|v| vec![v]).collect();
        srcs.push(vec![0, n - 1]);
        srcs.push(vec![n - 1, 1]);
        for s in &srcs {
            let _ = c05_dijkstra_case(&g, &d, s, ctx);
        }
        if f % 4 == 0 {
            // unit weights: the BFS side on two representations
            let abs = {
                let mut a = g.to_abs();
                a.w.clear();
                a
            };
            let al = mk::<AL>(&abs);
            let ax = mk::<AX>(&abs);
            for s in &srcs {
                let _ = c05_bfs_case(&g, &al, s, ctx);
                let _ = c05_bfs_case(&g, &ax, s, ctx);
            }
        }
        ctx.nontrivial();
        ctx.sample(|| json!({"order": n, "family": name, "targets": "every subset"}));
    })
}

pub fn c04_c06_family(which: &'static str, thorough: bool) -> Space {
    let mut cases: Vec<(usize, usize)> = Vec::new();
    for n in orders(thorough) {
        for f in 0..shapes(n).len() {
            cases.push((n, f));
        }
    }
    let cases = Arc::new(cases);
    Space::new(if which == "bfs" { "c04.family" } else { "c06.family" }, vec![u64::from(thorough)], cases.len() as u64, format!("{} on 17 structured digraphs per order {:?} in five representations, every single source and six source sets", if which == "bfs" { "Bfs/BfsDist/distances" } else { "Dfs/DfsDist/DfsPred/predecessors" }, orders(thorough)), move |idx, ctx| {
        let (n, f) = cases[idx as usize];
        let (name, abs) = shapes(n).swap_remove(f);
        fn go<R: Rep>(which: &str, abs: &Abs, n: usize, ctx: &mut Ctx) {
            let d: R = mk::<R>(abs);
            for s in source_sets(n) {
                if which == "bfs" {
                    bfs_case(abs, &d, &s, ctx);
                } else {
                    dfs_case(abs, &d, &s, ctx);
                }
            }
        }
        go::<AL>(which, &abs, n, ctx);
        go::<AM>(which, &abs, n, ctx);
        go::<AX>(which, &abs, n, ctx);
        go::<EL>(which, &abs, n, ctx);
        go::<WU>(which, &abs, n, ctx);
        ctx.nontrivial();
        ctx.sample(|| json!({"order": n, "family": name}));
    })
}

pub fn c07_c08_family(which: &'static str, thorough: bool) -> Space {
    // potentials keep every circuit non-negative; an extra family closes one negative
    // circuit inside a strongly connected digraph (so it is reachable from every source)
    let mut cases: Vec<(usize, usize, bool)> = Vec::new();
    for n in orders(thorough) {
        for f in 0..weighted(n, true).len() {
            cases.push((n, f, false));
            if which == "bfm" {
                cases.push((n, f, true));
            }
        }
    }
    let cases = Arc::new(cases);
    Space::new(if which == "bfm" { "c07.family" } else { "c08.family" }, vec![u64::from(thorough)], cases.len() as u64, format!("{} on structured digraphs of orders {:?} with potential-reweighted (negative) arcs and no negative circuit{}", if which == "bfm" { "BellmanFordMoore (every source)" } else { "FloydWarshall (all pairs)" }, orders(thorough), if which == "bfm" { ", and the strongly connected ones with one arc lowered until a negative circuit exists" } else { "" }), move |idx, ctx| {
        let (n, f, with_neg) = cases[idx as usize];
        let (name, mut g) = weighted(n, true).swap_remove(f);
        if which == "bfm" {
            if with_neg {
                // only for strongly connected shapes: lower one arc far below any circuit weight
                let all = (1u32 << n) - 1;
                let strongly = (0..n).all(|s| g.reach(1 << s) == all);
                if !strongly {
                    ctx.skip();
                    return;
                }
                let (u, v) = (0..n).flat_map(|u| (0..n).map(move |v| (u, v))).filter(|&(u, v)| g.has[u][v]).last().unwrap();
                g.w[u][v] = -1000;
                c07_case_with(&g, Some(all), ctx);
            } else {
                c07_case_with(&g, Some(0), ctx);
            }
        } else {
            c08_case_checked(&g, ctx);
        }
        ctx.nontrivial();
        ctx.sample(|| json!({"order": n, "family": name, "arcs": g.arcs, "negative_circuit": with_neg}));
    })
}

pub fn c09_family(thorough: bool) -> Space {
    let mut cases: Vec<(usize, usize)> = Vec::new();
    for n in orders(thorough) {
        for f in 0..shapes(n).len() {
            cases.push((n, f));
        }
    }
    let cases = Arc::new(cases);
    Space::new("c09.family", vec![u64::from(thorough)], cases.len() as u64, format!("Tarjan on 17 structured digraphs per order {:?} in five representations, and relabelled onto non-contiguous ids in AdjacencyMap", orders(thorough)), move |idx, ctx| {
        let (n, f) = cases[idx as usize];
        let (name, abs) = shapes(n).swap_remove(f);
        tarjan_check(&abs, &mk::<AL>(&abs), ctx);
        tarjan_check(&abs, &mk::<AM>(&abs), ctx);
        tarjan_check(&abs, &mk::<AX>(&abs), ctx);
        tarjan_check(&abs, &mk::<EL>(&abs), ctx);
        tarjan_check(&abs, &mk::<WU>(&abs), ctx);
        // relabel v -> 3v + 2 (non-contiguous, 0 not a vertex)
        let mut sp = Abs::on(abs.v.iter().map(|v| 3 * v + 2));
        for &(u, v) in &abs.a {
            sp.a.insert((3 * u + 2, 3 * v + 2));
        }
        tarjan_check(&sp, &mk_am(&sp), ctx);
        ctx.nontrivial();
        ctx.sample(|| json!({"order": n, "family": name}));
    })
}

pub fn c10_family(thorough: bool) -> Space {
    let ords: Vec<usize> = if thorough { vec![6, 7, 8] } else { vec![6, 7] };
    let mut cases: Vec<(usize, usize)> = Vec::new();
    for &n in &ords {
        for f in 0..shapes(n).len() {
            cases.push((n, f));
        }
    }
    let cases = Arc::new(cases);
    Space::new("c10.family", vec![u64::from(thorough)], cases.len() as u64, format!("Johnson75 on 17 structured digraphs per order {ords:?} (complete digraph of order 7: 2 365 circuits)"), move |idx, ctx| {
        let (n, f) = cases[idx as usize];
        let (name, abs) = shapes(n).swap_remove(f);
        johnson_check(&abs, ctx);
        ctx.nontrivial();
        ctx.sample(|| json!({"order": n, "family": name}));
    })
}
