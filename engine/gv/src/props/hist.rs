//! C01 and C20 — explicit-state closure of mutation histories (stateright).
//!
//! The real `add_arc / add_arc_weighted / remove_arc / toggle` methods are the
//! transition function; the state is the real digraph value next to the
//! reference (V, A, w). For a fixed order and alphabet the reachable state
//! space is finite, so the search closes: every reachable state is visited and
//! every transition out of it is executed and compared, which decides the
//! property for histories of every length.

use crate::core::{guarded, write_replay, CaseId, Ctx, Fail};
use crate::props::gens::{biclique_form, closed_form};
use crate::refm::Abs;
use crate::reps::*;
use crate::spacesx::par;
use crate::Check;
use graaf::*;
use serde_json::{json, Value};
use stateright::{Checker, Model, Property};
use std::collections::hash_map::DefaultHasher;
use std::collections::{BTreeMap, BTreeSet};
use std::hash::{Hash, Hasher};
use std::sync::atomic::{AtomicU64, Ordering};
use std::sync::{Arc, Mutex};

/// What each checker thread is doing right now, for the stall watchdog: the
/// real code may loop forever inside a transition (e.g. a broken iterator).
pub struct Beat {
    pub since: std::time::Instant,
    pub rep: &'static str,
    pub model: String,
    pub abs: Abs,
    pub act: Option<Act>,
}
pub static BEATS: Mutex<Vec<Option<Beat>>> = Mutex::new(Vec::new());
thread_local! {
    static BEAT_SLOT: std::cell::Cell<usize> = const { std::cell::Cell::new(usize::MAX) };
}
fn beat_begin(rep: &'static str, model: &str, abs: &Abs, act: Option<Act>) {
    let mut b = BEATS.lock().unwrap();
    let mut i = BEAT_SLOT.with(std::cell::Cell::get);
    if i == usize::MAX {
        i = b.len();
        b.push(None);
        BEAT_SLOT.with(|c| c.set(i));
    }
    b[i] = Some(Beat { since: std::time::Instant::now(), rep, model: model.to_string(), abs: abs.clone(), act });
}
fn beat_end() {
    let i = BEAT_SLOT.with(std::cell::Cell::get);
    if i != usize::MAX {
        BEATS.lock().unwrap()[i] = None;
    }
}

/// Watches the checker threads; a transition (or an observation) that does
/// not return within `secs` is a violation at that (state, action).
pub fn spawn_stall_watchdog(prop: &'static str, secs: u64) {
    let _ = std::thread::spawn(move || loop {
        std::thread::sleep(std::time::Duration::from_millis(500));
        let b = BEATS.lock().unwrap();
        for beat in b.iter().flatten() {
            if beat.since.elapsed().as_secs() >= secs {
                let path = write_replay(prop, &format!("stall_{}", std::process::id()), &json!({
                    "property": prop,
                    "what": format!("{} [{}]: the real code did not return within {secs} s from this state/action (non-termination)", beat.rep, beat.model),
                    "case": {"kind": "post:hist.stall", "p": [], "idx": 0},
                    "detail": {"rep": beat.rep, "model": beat.model, "state": beat.abs.arcs_json(), "action": beat.act.map(|a| a.json())},
                }));
                println!("VIOLATION property={prop} replay={path}");
                use std::io::Write;
                let _ = std::io::stdout().flush();
                std::process::exit(1);
            }
        }
    });
}

#[derive(Clone, Copy, Debug, PartialEq, Eq, Hash, PartialOrd, Ord)]
pub enum Act {
    Add(usize, usize),
    AddW(usize, usize, i64),
    Remove(usize, usize),
    Toggle(usize, usize),
}

impl Act {
    fn json(&self) -> Value {
        match *self {
            Act::Add(u, v) => json!(["add_arc", u, v]),
            Act::AddW(u, v, w) => json!(["add_arc_weighted", u, v, w]),
            Act::Remove(u, v) => json!(["remove_arc", u, v]),
            Act::Toggle(u, v) => json!(["toggle", u, v]),
        }
    }
    fn from_json(v: &Value) -> Option<Act> {
        let a = v.as_array()?;
        let u = a.get(1)?.as_u64()? as usize;
        let w = a.get(2)?.as_u64()? as usize;
        match a.first()?.as_str()? {
            "add_arc" => Some(Act::Add(u, w)),
            "add_arc_weighted" => Some(Act::AddW(u, w, a.get(3)?.as_i64()?)),
            "remove_arc" => Some(Act::Remove(u, w)),
            "toggle" => Some(Act::Toggle(u, w)),
            _ => None,
        }
    }
}

pub trait HistRep: Rep {
    /// V is fixed to 0..order (everything except AdjacencyMap)
    const FIXED: bool = true;
    const TOGGLE: bool = false;
    fn do_toggle(&mut self, _u: usize, _v: usize) {}
    /// other public ways to construct digraphs of this order: (label, value, abstract)
    fn extra_inits(_n: usize) -> Vec<(String, Self, Abs)> {
        Vec::new()
    }
    /// a digraph with the same (V, A, w) built from scratch through the public API
    fn fresh(abs: &Abs) -> Self {
        mk::<Self>(abs)
    }
}

fn gen_inits<R: crate::props::gens::GenRep>(n: usize) -> Vec<(String, R, Abs)> {
    let mut v: Vec<(String, R, Abs)> = Vec::new();
    macro_rules! g {
        ($name:expr, $call:expr) => {
            if let Ok(d) = guarded(|| $call) {
                v.push(($name.to_string(), d, closed_form($name, n)));
            }
        };
    }
    par(2);
    g!("complete", R::complete(n));
    g!("circuit", R::circuit(n));
    g!("cycle", R::cycle(n));
    g!("path", R::path(n));
    g!("star", R::star(n));
    if n >= 4 {
        g!("wheel", R::wheel(n));
    }
    for m in 1..n {
        if let Ok(d) = guarded(|| R::biclique(m, n - m)) {
            v.push((format!("biclique({m},{})", n - m), d, biclique_form(m, n - m)));
        }
    }
    // operators as constructors
    if let Ok(d) = guarded(|| R::empty(n).complement()) {
        v.push(("empty.complement".into(), d, closed_form("complete", n)));
    }
    if let Ok(d) = guarded(|| R::complete(n).complement()) {
        v.push(("complete.complement".into(), d, Abs::empty(n)));
    }
    if let Ok(d) = guarded(|| R::path(n).converse().union(&R::path(n))) {
        let mut a = closed_form("path", n);
        a = a.union(&a.converse());
        v.push(("path.converse ∪ path".into(), d, a));
    }
    if let Ok(d) = guarded(|| R::erdos_renyi(n, 1.0, 3)) {
        v.push(("erdos_renyi(p=1)".into(), d, closed_form("complete", n)));
    }
    if let Ok(d) = guarded(|| R::erdos_renyi(n, 0.0, 3)) {
        v.push(("erdos_renyi(p=0)".into(), d, Abs::empty(n)));
    }
    v
}

impl HistRep for AL {
    fn extra_inits(n: usize) -> Vec<(String, Self, Abs)> {
        let mut v = gen_inits::<AL>(n);
        let c = closed_form("cycle", n);
        v.push(("From<AdjacencyMatrix>".into(), AL::from(mk::<AX>(&c)), c.clone()));
        v.push(("From<EdgeList>".into(), AL::from(mk::<EL>(&c)), c.clone()));
        v.push(("From<AdjacencyMap>".into(), AL::from(mk::<AM>(&c)), c.clone()));
        v.push(("From<rows>".into(), AL::from((0..n).map(|u| c.out(u).into_iter().collect::<BTreeSet<usize>>()).collect::<Vec<_>>()), c));
        v
    }
}
impl HistRep for AM {
    const FIXED: bool = false;
    fn fresh(abs: &Abs) -> Self {
        mk_am(abs)
    }
    fn extra_inits(n: usize) -> Vec<(String, Self, Abs)> {
        let mut v = gen_inits::<AM>(n);
        let c = closed_form("cycle", n);
        v.push(("From<AdjacencyList>".into(), AM::from(mk::<AL>(&c)), c.clone()));
        v.push(("From<AdjacencyMatrix>".into(), AM::from(mk::<AX>(&c)), c.clone()));
        v.push(("From<EdgeList>".into(), AM::from(mk::<EL>(&c)), c.clone()));
        v.push(("From<rows>".into(), AM::from((0..n).map(|u| c.out(u).into_iter().collect::<BTreeSet<usize>>()).collect::<Vec<_>>()), c));
        v
    }
}
impl HistRep for AX {
    const TOGGLE: bool = true;
    fn do_toggle(&mut self, u: usize, v: usize) {
        self.toggle(u, v);
    }
    fn extra_inits(n: usize) -> Vec<(String, Self, Abs)> {
        if n > 5 {
            // word-boundary orders: other construction paths of a digraph that the window
            // alphabet also reaches by add_arc from empty(n) (its last off-diagonal cell)
            let one = Abs::from_arcs(n, [(n - 1, n - 2)]);
            return vec![
                ("From<arcs>".into(), AX::from(vec![(n - 1, n - 2)]), one.clone()),
                ("From<AdjacencyList>".into(), AX::from(mk::<AL>(&one)), one.clone()),
                ("From<EdgeList>".into(), AX::from(mk::<EL>(&one)), one.clone()),
                ("From<AdjacencyMap>".into(), AX::from(mk::<AM>(&one)), one.clone()),
                ("empty.complement.complement".into(), AX::empty(n).complement().complement(), Abs::empty(n)),
                ("union with a smaller digraph".into(), AX::empty(n).union(&AX::empty(3)), Abs::empty(n)),
            ];
        }
        let mut v = gen_inits::<AX>(n);
        let c = closed_form("cycle", n);
        v.push(("From<AdjacencyList>".into(), AX::from(mk::<AL>(&c)), c.clone()));
        v.push(("From<EdgeList>".into(), AX::from(mk::<EL>(&c)), c.clone()));
        v.push(("From<AdjacencyMap>".into(), AX::from(mk::<AM>(&c)), c.clone()));
        if n >= 2 {
            v.push(("From<arcs>".into(), AX::from(c.a.iter().copied().collect::<Vec<_>>()), c));
        }
        v
    }
}
impl HistRep for EL {
    fn extra_inits(n: usize) -> Vec<(String, Self, Abs)> {
        let mut v = gen_inits::<EL>(n);
        let c = closed_form("cycle", n);
        v.push(("From<AdjacencyList>".into(), EL::from(mk::<AL>(&c)), c.clone()));
        v.push(("From<AdjacencyMatrix>".into(), EL::from(mk::<AX>(&c)), c.clone()));
        v.push(("From<AdjacencyMap>".into(), EL::from(mk::<AM>(&c)), c.clone()));
        if n >= 2 {
            v.push(("From<arcs>".into(), EL::from(c.a.iter().copied().collect::<Vec<_>>()), c));
        }
        v
    }
}
impl HistRep for WU {
    fn extra_inits(n: usize) -> Vec<(String, Self, Abs)> {
        let mut c = closed_form("cycle", n);
        c.w = c.a.iter().map(|&k| (k, 1)).collect();
        vec![("From<AdjacencyList>".into(), WU::from(mk::<AL>(&c)), c.clone()), ("From<EdgeList>".into(), WU::from(mk::<EL>(&c)), c.clone()), ("From<AdjacencyMatrix>".into(), WU::from(mk::<AX>(&c)), c.clone()), ("From<AdjacencyMap>".into(), WU::from(mk::<AM>(&c)), c)]
    }
}
impl HistRep for WI {}

#[derive(Clone, Debug)]
pub struct HState<R: HistRep> {
    pub real: R,
    pub abs: Abs,
    pub fault: Option<String>,
    /// at least one rejected call / weight replacement / ... on the way (for `sometimes`)
    pub flags: u8,
}

impl<R: HistRep> Hash for HState<R> {
    fn hash<H: Hasher>(&self, h: &mut H) {
        // NOT R's own Hash (that impl is under test in C20): the Debug rendering
        // exposes the internal fields.
        self.abs.hash(h);
        format!("{:?}", self.real).hash(h);
        self.fault.is_some().hash(h);
    }
}
impl<R: HistRep> PartialEq for HState<R> {
    fn eq(&self, o: &Self) -> bool {
        self.abs == o.abs && format!("{:?}", self.real) == format!("{:?}", o.real) && self.fault.is_some() == o.fault.is_some()
    }
}

pub struct HModel<R: HistRep> {
    pub label: String,
    pub inits: Vec<(String, R, Abs)>,
    pub actions: Vec<Act>,
    pub ids: Vec<usize>,
    pub transitions: AtomicU64,
    pub rejected: AtomicU64,
    pub noop: AtomicU64,
    pub replaced: AtomicU64,
    /// every state seen by the property check: Debug(real) -> (real, abs)
    pub seen: Mutex<BTreeMap<String, (R, Abs)>>,
    pub collect: bool,
    /// a few actual transitions of this run, for the evidence file
    pub samples: Mutex<Vec<Value>>,
}

/// Applies `act` to the reference model. `Err(())` = the call must be rejected
/// (panic, digraph unchanged); `Ok(ret)` = accepted, `ret` = remove_arc's answer.
pub fn apply_abs(abs: &mut Abs, act: Act, fixed: bool, weighted: bool) -> Result<Option<bool>, ()> {
    let inv = |abs: &Abs, u: usize, v: usize| u == v || (fixed && (!abs.v.contains(&u) || !abs.v.contains(&v)));
    match act {
        Act::Add(u, v) => {
            if inv(abs, u, v) {
                return Err(());
            }
            abs.v.insert(u);
            abs.v.insert(v);
            abs.a.insert((u, v));
            if weighted {
                abs.w.insert((u, v), 1);
            }
            Ok(None)
        }
        Act::AddW(u, v, w) => {
            if inv(abs, u, v) {
                return Err(());
            }
            abs.a.insert((u, v));
            abs.w.insert((u, v), w as i128);
            Ok(None)
        }
        Act::Remove(u, v) => {
            let had = abs.a.remove(&(u, v));
            abs.w.remove(&(u, v));
            Ok(Some(had))
        }
        Act::Toggle(u, v) => {
            if inv(abs, u, v) {
                return Err(());
            }
            if !abs.a.remove(&(u, v)) {
                abs.a.insert((u, v));
            }
            Ok(None)
        }
    }
}

/// Applies `act` to the real digraph. `Err(msg)` = it panicked.
pub fn apply_real<R: HistRep>(d: &mut R, act: Act) -> Result<Option<bool>, String> {
    guarded(|| match act {
        Act::Add(u, v) => {
            d.add(u, v);
            None
        }
        Act::AddW(u, v, w) => {
            d.add_w(u, v, w as i128);
            None
        }
        Act::Remove(u, v) => Some(d.remove_arc(u, v)),
        Act::Toggle(u, v) => {
            d.do_toggle(u, v);
            None
        }
    })
}

/// One step on (real, abs); returns the fault, if any.
pub fn step<R: HistRep>(real: &mut R, abs: &mut Abs, act: Act, ids: &[usize]) -> (Option<String>, bool) {
    let before_dbg = format!("{real:?}");
    let before = real.clone();
    let want = apply_abs(abs, act, R::FIXED, R::WEIGHTED);
    let got = apply_real(real, act);
    let rejected = want.is_err();
    let fault = match (&want, &got) {
        (Err(()), Ok(_)) => Some(format!("{act:?} must be rejected (self-loop or endpoint outside a fixed-order digraph) but returned normally")),
        (Err(()), Err(_)) => {
            // rejected: the digraph must be unchanged
            if format!("{real:?}") != before_dbg || *real != before {
                Some(format!("{act:?} panicked as required but changed the digraph"))
            } else {
                None
            }
        }
        (Ok(_), Err(e)) => Some(format!("{act:?} is a valid call but panicked: {e}")),
        (Ok(w), Ok(g)) => {
            if w != g {
                Some(format!("{act:?} returned {g:?}, the model says {w:?}"))
            } else {
                None
            }
        }
    };
    if fault.is_some() {
        return (fault, rejected);
    }
    match observe(real) {
        Err(e) => return (Some(format!("after {act:?}: {e}")), rejected),
        Ok(o) => {
            if !same::<R>(&o, abs) {
                return (Some(format!("after {act:?}: observed {} but the same operations on a plain set of arcs give {}", o.arcs_json(), abs.arcs_json())), rejected);
            }
        }
    }
    for &u in ids {
        for &v in ids {
            if guarded(|| real.has_arc(u, v)) != Ok(abs.has(u, v)) {
                return (Some(format!("after {act:?}: has_arc({u},{v}) disagrees with the model")), rejected);
            }
        }
    }
    // equality against a freshly built digraph
    match guarded(|| R::fresh(abs)) {
        Ok(f) => {
            if f != *real {
                return (Some(format!("after {act:?}: the digraph is not == a digraph freshly built with the same vertices and arcs")), rejected);
            }
        }
        Err(e) => return (Some(format!("building a fresh digraph panicked: {e}")), rejected),
    }
    (None, rejected)
}

impl<R: HistRep> Model for HModel<R> {
    type State = HState<R>;
    type Action = Act;

    fn init_states(&self) -> Vec<Self::State> {
        self.inits
            .iter()
            .map(|(label, d, abs)| {
                beat_begin(R::NAME, &self.label, abs, None);
                let obs = observe(d);
                beat_end();
                let fault = match obs {
                    Ok(o) if same::<R>(&o, abs) => None,
                    Ok(o) => Some(format!("initial state {label}: observed {} but its definition is {}", o.arcs_json(), abs.arcs_json())),
                    Err(e) => Some(format!("initial state {label}: {e}")),
                };
                HState { real: d.clone(), abs: abs.clone(), fault, flags: 0 }
            })
            .collect()
    }

    fn actions(&self, state: &Self::State, actions: &mut Vec<Self::Action>) {
        if state.fault.is_none() {
            actions.extend(self.actions.iter().copied());
        }
    }

    fn next_state(&self, last: &Self::State, action: Self::Action) -> Option<Self::State> {
        self.transitions.fetch_add(1, Ordering::Relaxed);
        beat_begin(R::NAME, &self.label, &last.abs, Some(action));
        let r = self.next_state_inner(last, action);
        beat_end();
        r
    }
}

impl<R: HistRep> HModel<R> {
    fn next_state_inner(&self, last: &HState<R>, action: Act) -> Option<HState<R>> {
        let orig_dbg = format!("{:?}", last.real);
        let keep = last.real.clone();
        let mut real = last.real.clone();
        let mut abs = last.abs.clone();
        let old_w = abs.w.clone();
        let (mut fault, rejected) = step(&mut real, &mut abs, action, &self.ids);
        if last.abs.a.len() == 2 && (rejected || abs != last.abs) {
            if let Ok(mut sm) = self.samples.try_lock() {
                if sm.len() < 2 && !sm.iter().any(|x| x.get("rejected") == Some(&json!(rejected))) {
                    sm.push(json!({"rep": R::NAME, "model": self.label, "state": last.abs.arcs_json(), "action": action.json(), "rejected": rejected, "next_state": abs.arcs_json()}));
                }
            }
        }
        // C20: mutating the clone never changes the original, and vice versa
        if fault.is_none() && (format!("{:?}", last.real) != orig_dbg || keep != last.real) {
            fault = Some(format!("{action:?} applied to a clone changed the original"));
        }
        if rejected {
            self.rejected.fetch_add(1, Ordering::Relaxed);
        } else if abs == last.abs {
            self.noop.fetch_add(1, Ordering::Relaxed);
        }
        if let Act::AddW(u, v, w) = action {
            if old_w.get(&(u, v)).is_some_and(|&x| x != w as i128) {
                self.replaced.fetch_add(1, Ordering::Relaxed);
            }
        }
        let mut flags = last.flags;
        if rejected {
            flags |= 1;
        }
        Some(HState { real, abs, fault, flags: flags & 0 })
    }

}

fn all_pairs(ids: &[usize]) -> Vec<(usize, usize)> {
    let mut p = Vec::new();
    for &u in ids {
        for &v in ids {
            p.push((u, v));
        }
    }
    p
}

fn model_for<R: HistRep>(label: &str, inits: Vec<(String, R, Abs)>, ids: Vec<usize>, pairs: Vec<(usize, usize)>, weights: &[i64], collect: bool) -> HModel<R> {
    let mut actions = Vec::new();
    for &(u, v) in &pairs {
        if R::WEIGHTED {
            for &w in weights {
                actions.push(Act::AddW(u, v, w));
            }
        } else {
            actions.push(Act::Add(u, v));
        }
        actions.push(Act::Remove(u, v));
        if R::TOGGLE {
            actions.push(Act::Toggle(u, v));
        }
    }
    HModel { label: label.to_string(), inits, actions, ids, transitions: AtomicU64::new(0), rejected: AtomicU64::new(0), noop: AtomicU64::new(0), replaced: AtomicU64::new(0), seen: Mutex::new(BTreeMap::new()), collect, samples: Mutex::new(Vec::new()) }
}

pub struct HistOut {
    pub label: String,
    pub states: u64,
    pub transitions: u64,
    pub max_depth: u64,
    pub rejected: u64,
    pub noop: u64,
    pub replaced: u64,
    pub abstract_states: u64,
    pub concrete_states: u64,
    pub pair_checks: u64,
}

/// Runs one model to closure, records faults into `ctx`, then performs the
/// C20 pass over the closed state set.
fn run_model<R: HistRep>(prop: &str, m: HModel<R>, threads: usize, ctx: &mut Ctx, pairs_pass: bool) -> (HistOut, Vec<(R, Abs)>) {
    let label = m.label.clone();
    let m = Arc::new(m);
    // stateright takes the model by value; share counters through Arc by wrapping
    struct Wrap<R: HistRep>(Arc<HModel<R>>);
    impl<R: HistRep> Model for Wrap<R> {
        type State = HState<R>;
        type Action = Act;
        fn init_states(&self) -> Vec<Self::State> {
            self.0.init_states()
        }
        fn actions(&self, s: &Self::State, a: &mut Vec<Self::Action>) {
            self.0.actions(s, a)
        }
        fn next_state(&self, s: &Self::State, a: Self::Action) -> Option<Self::State> {
            self.0.next_state(s, a)
        }
        fn properties(&self) -> Vec<Property<Self>> {
            vec![Property::<Self>::always("real digraph tracks the abstract digraph", |m, s| {
                if m.0.collect && s.fault.is_none() {
                    let mut seen = m.0.seen.lock().unwrap();
                    seen.entry(format!("{:?}", s.real)).or_insert_with(|| (s.real.clone(), s.abs.clone()));
                }
                s.fault.is_none()
            })]
        }
    }
    let checker = Wrap(m.clone()).checker().threads(threads).spawn_bfs().join();
    let states = checker.unique_state_count() as u64;
    let max_depth = checker.max_depth() as u64;
    if let Some(path) = checker.discovery("real digraph tracks the abstract digraph") {
        let last = path.last_state().clone();
        let acts: Vec<Act> = path.into_actions();
        let case = CaseId { kind: "post:hist".into(), p: vec![R::ID], idx: 0 };
        let what = format!("{} [{}]: {}", R::NAME, label, last.fault.clone().unwrap_or_default());
        ctx.fail_count += 1;
        ctx.fails.push(Fail {
            case,
            what,
            known: None,
            detail: json!({"rep": R::NAME, "model": label, "initial_states": m.inits.iter().map(|i| i.0.clone()).collect::<Vec<_>>(), "actions": acts.iter().map(Act::json).collect::<Vec<_>>(), "reached_abstract": last.abs.arcs_json(), "reached_real_debug": format!("{:?}", last.real)}),
        });
    }
    let _ = prop;
    if ctx.samples.len() < 10 {
        ctx.samples.extend(m.samples.lock().unwrap().iter().cloned());
    }
    let mut out = HistOut {
        label,
        states,
        transitions: m.transitions.load(Ordering::Relaxed),
        max_depth,
        rejected: m.rejected.load(Ordering::Relaxed),
        noop: m.noop.load(Ordering::Relaxed),
        replaced: m.replaced.load(Ordering::Relaxed),
        abstract_states: 0,
        concrete_states: 0,
        pair_checks: 0,
    };
    let mut collected: Vec<(R, Abs)> = Vec::new();
    if m.collect {
        let seen = m.seen.lock().unwrap();
        let abstracts: BTreeSet<&Abs> = seen.values().map(|(_, a)| a).collect();
        out.abstract_states = abstracts.len() as u64;
        out.concrete_states = seen.len() as u64;
        let mk_fail = |ctx: &mut Ctx, what: String, detail: Value| {
            ctx.fail_count += 1;
            if ctx.fails.len() < 8 {
                ctx.fails.push(Fail { case: CaseId { kind: "post:hist.c20".into(), p: vec![R::ID], idx: 0 }, what, known: None, detail });
            }
        };
        // (a) one concrete value per abstract digraph, whatever history reached it
        if seen.len() != abstracts.len() {
            let mut by_abs: BTreeMap<&Abs, Vec<&String>> = BTreeMap::new();
            for (k, (_, a)) in seen.iter() {
                by_abs.entry(a).or_default().push(k);
            }
            if let Some((a, ks)) = by_abs.iter().find(|(_, ks)| ks.len() > 1) {
                mk_fail(ctx, format!("{}: {} distinct internal values for {} abstract digraphs: construction histories that lead to the same digraph leave different internal states", R::NAME, seen.len(), abstracts.len()), json!({"abstract": a.arcs_json(), "internal_values": ks}));
            }
        }
        if pairs_pass {
            let items: Vec<&(R, Abs)> = seen.values().collect();
            let hash = |d: &R| {
                let mut h = DefaultHasher::new();
                d.hash(&mut h);
                h.finish()
            };
            let hashes: Vec<u64> = items.iter().map(|(d, _)| hash(d)).collect();
            'outer: for (i, (a, aa)) in items.iter().enumerate() {
                if i % 64 == 0 {
                    beat_begin(R::NAME, &out.label, aa, None);
                }
                // clone equals original
                let c = a.clone();
                if c != *a || hash(&c) != hashes[i] || c.cmp(a) != std::cmp::Ordering::Equal {
                    mk_fail(ctx, format!("{}: a clone is not equal to its original", R::NAME), json!({"digraph": aa.arcs_json()}));
                    break;
                }
                // is_complete (== complete(order) for matrix / edge list)
                if aa.is_contiguous() || !R::FIXED {
                    out.pair_checks += 1;
                    if guarded(|| a.is_complete()) != Ok(aa.is_complete()) && aa.n() > 0 {
                        mk_fail(ctx, format!("{}: is_complete() wrong on a state of the closure", R::NAME), json!({"digraph": aa.arcs_json(), "internal": format!("{a:?}")}));
                        break;
                    }
                }
                for (j, (b, ab)) in items.iter().enumerate() {
                    out.pair_checks += 1;
                    let same_abs = aa.v == ab.v && aa.a == ab.a && (!R::WEIGHTED || aa.w == ab.w);
                    let eq = a == b;
                    let ord = a.cmp(b);
                    let bad = if eq != same_abs {
                        Some(format!("== is {eq} but the abstract digraphs are {}", if same_abs { "equal" } else { "different" }))
                    } else if (ord == std::cmp::Ordering::Equal) != eq {
                        Some(format!("cmp is {ord:?} but == is {eq}"))
                    } else if ord != b.cmp(a).reverse() {
                        Some("cmp is not antisymmetric".to_string())
                    } else if a.partial_cmp(b) != Some(ord) {
                        Some("partial_cmp disagrees with cmp".to_string())
                    } else if eq && hashes[i] != hashes[j] {
                        Some("equal digraphs have different hashes".to_string())
                    } else if (a != b) == eq {
                        Some("!= is not the negation of ==".to_string())
                    } else if (a < b) != (ord == std::cmp::Ordering::Less) || (a <= b) != (ord != std::cmp::Ordering::Greater) || (a > b) != (ord == std::cmp::Ordering::Greater) || (a >= b) != (ord != std::cmp::Ordering::Less) {
                        Some(format!("<, <=, >, >= disagree with cmp = {ord:?}"))
                    } else {
                        None
                    };
                    if let Some(b2) = bad {
                        mk_fail(ctx, format!("{}: {b2}", R::NAME), json!({"lhs": aa.arcs_json(), "rhs": ab.arcs_json(), "lhs_internal": format!("{a:?}"), "rhs_internal": format!("{b:?}")}));
                        break 'outer;
                    }
                    // Clone::clone_from into a value that held another digraph: the result equals
                    // the source (every ordered pair for closures of ≤ 1100 states, a fixed
                    // selection of partners per state above that)
                    let n_items = items.len();
                    if n_items <= 1100 || j == 0 || j + 1 == n_items || j + 1 == i || j == i + 1 || j == (i * 31 + 7) % n_items {
                        out.pair_checks += 1;
                        let mut t = (*a).clone();
                        t.clone_from(b);
                        if t != *b || hash(&t) != hashes[j] || t.cmp(b) != std::cmp::Ordering::Equal {
                            mk_fail(ctx, format!("{}: x.clone_from(&y) leaves x different from y (==, hash or cmp)", R::NAME), json!({"x_before": aa.arcs_json(), "y": ab.arcs_json(), "x_after_internal": format!("{t:?}"), "y_internal": format!("{b:?}")}));
                            break 'outer;
                        }
                    }
                }
            }
            beat_end();
        }
        collected = seen.values().cloned().collect();
    }
    (out, collected)
}

/// Cross-model pass of C20: digraphs of one representation taken from closures of DIFFERENT
/// orders (different vertex sets) must never compare equal, whatever their arcs; cmp must be
/// non-Equal, antisymmetric and agree with partial_cmp.
fn cross_pass<R: HistRep>(groups: &[Vec<(R, Abs)>], ctx: &mut Ctx) -> u64 {
    let mut checks = 0u64;
    for (gi, ga) in groups.iter().enumerate() {
        for (gj, gb) in groups.iter().enumerate() {
            if gi == gj {
                continue;
            }
            for (i, (a, aa)) in ga.iter().enumerate() {
                if i % 64 == 0 {
                    beat_begin(R::NAME, "cross-order pairs", aa, None);
                }
                for (b, ab) in gb {
                    if aa.v == ab.v {
                        continue;
                    }
                    checks += 1;
                    let eq = a == b;
                    let ord = a.cmp(b);
                    let bad = if eq {
                        Some("== is true but the vertex sets differ".to_string())
                    } else if ord == std::cmp::Ordering::Equal {
                        Some("cmp is Equal but the vertex sets differ".to_string())
                    } else if ord != b.cmp(a).reverse() {
                        Some("cmp is not antisymmetric".to_string())
                    } else if a.partial_cmp(b) != Some(ord) {
                        Some("partial_cmp disagrees with cmp".to_string())
                    } else if (a != b) == eq {
                        Some("!= is not the negation of ==".to_string())
                    } else {
                        // clone_from across orders: the target must take over the source's order too
                        let mut t = a.clone();
                        t.clone_from(b);
                        if t != *b || t.cmp(b) != std::cmp::Ordering::Equal {
                            Some(format!("x.clone_from(&y) leaves x different from y (x after: {t:?})"))
                        } else {
                            None
                        }
                    };
                    if let Some(b2) = bad {
                        ctx.fail_count += 1;
                        if ctx.fails.len() < 8 {
                            ctx.fails.push(Fail {
                                case: CaseId { kind: "post:hist.c20x".into(), p: vec![R::ID], idx: 0 },
                                what: format!("{}: digraphs of different orders: {b2}", R::NAME),
                                known: None,
                                detail: json!({"lhs": aa.arcs_json(), "rhs": ab.arcs_json(), "lhs_internal": format!("{a:?}"), "rhs_internal": format!("{b:?}")}),
                            });
                        }
                        beat_end();
                        return checks;
                    }
                }
            }
        }
    }
    beat_end();
    checks
}

fn fixed_inits<R: HistRep>(n: usize, extra: bool) -> Vec<(String, R, Abs)> {
    let mut abs0 = Abs::empty(n);
    if R::WEIGHTED {
        abs0.w.clear();
    }
    let mut v = vec![(format!("empty({n})"), R::empty(n), abs0)];
    if extra {
        v.extend(R::extra_inits(n));
    }
    v
}

fn hist_json(o: &HistOut) -> Value {
    json!({"model": o.label, "unique_states": o.states, "transitions": o.transitions, "max_depth": o.max_depth, "rejected_calls": o.rejected, "no_op_transitions": o.noop, "weight_replacements": o.replaced, "abstract_states": o.abstract_states, "distinct_internal_values": o.concrete_states, "pairwise_eq_ord_hash_checks": o.pair_checks})
}

/// AdjacencyMatrix window alphabet: the cells around each 64-bit word boundary,
/// the first and the last off-diagonal cell.
fn ax_window(n: usize) -> Vec<(usize, usize)> {
    let mut cells: BTreeSet<usize> = BTreeSet::new();
    let total = n * n;
    let mut b = 64;
    while b < total + 2 {
        for c in [b.wrapping_sub(2), b - 1, b, b + 1] {
            if c < total {
                cells.insert(c);
            }
        }
        b += 64;
    }
    cells.insert(1);
    cells.insert(total - 2);
    let mut pairs: Vec<(usize, usize)> = cells.into_iter().map(|c| (c / n, c % n)).filter(|&(u, v)| u != v).collect();
    pairs.truncate(9);
    // three rejected pairs
    pairs.push((0, 0));
    pairs.push((n, 1));
    pairs.push((1, n + 1));
    pairs
}

pub fn run_all(prop: &'static str, tier: &str, ctx: &mut Ctx) -> Value {
    let thorough = tier == "thorough";
    spawn_stall_watchdog(prop, 30);
    let threads = std::thread::available_parallelism().map_or(8, |n| n.get());
    let mut outs: Vec<Value> = Vec::new();
    let pairs_pass = true;
    let mut tot_states = 0u64;
    let mut tot_trans = 0u64;
    let mut tot_pairs = 0u64;
    let mut nontrivial = 0u64;
    let mut g_al: Vec<Vec<(AL, Abs)>> = Vec::new();
    let mut g_ax: Vec<Vec<(AX, Abs)>> = Vec::new();
    let mut g_el: Vec<Vec<(EL, Abs)>> = Vec::new();
    let mut g_wu: Vec<Vec<(WU, Abs)>> = Vec::new();
    let mut g_wi: Vec<Vec<(WI, Abs)>> = Vec::new();
    macro_rules! fixed {
        ($t:ty, $n:expr, $weights:expr, $collect:expr, $g:ident) => {{
            let n: usize = $n;
            let ids: Vec<usize> = (0..n + 2).collect();
            let ws: &[i64] = $weights;
            let m = model_for::<$t>(&format!("order {n}, ids 0..={}, weights {:?}", n + 1, ws), fixed_inits::<$t>(n, true), ids.clone(), all_pairs(&ids), ws, $collect);
            let (o, items) = run_model::<$t>(prop, m, threads, ctx, pairs_pass && $collect);
            if !items.is_empty() {
                $g.push(items);
            }
            tot_states += o.states;
            tot_trans += o.transitions;
            tot_pairs += o.pair_checks;
            nontrivial += o.rejected + o.noop + o.replaced;
            outs.push(json!({"rep": <$t as Rep>::NAME, "closure": hist_json(&o)}));
        }};
    }
    for n in 1..=4 {
        fixed!(AL, n, &[], true, g_al);
        fixed!(AX, n, &[], true, g_ax);
        fixed!(EL, n, &[], true, g_el);
    }
    for n in 1..=3 {
        fixed!(WU, n, &[1, 2], true, g_wu);
        fixed!(WI, n, &[-1, 2], true, g_wi);
    }
    if thorough {
        fixed!(WU, 3, &[1, 2, 3], false, g_wu);
        fixed!(WU, 4, &[1, 2], false, g_wu);
    }
    // AdjacencyMap: V grows with add_arc; ids from a pool with a gap
    {
        let pool: Vec<usize> = if thorough { vec![0, 1, 2, 5, 7] } else { vec![0, 1, 2, 5] };
        let mut inits: Vec<(String, AM, Abs)> = vec![("empty(1)".into(), AM::empty(1), Abs::empty(1)), ("empty(2)".into(), AM::empty(2), Abs::empty(2))];
        inits.extend(AM::extra_inits(3));
        let m = model_for::<AM>(&format!("ids from {pool:?}, V grows"), inits, pool.clone(), all_pairs(&pool), &[], pool.len() <= 4);
        let (o, _) = run_model::<AM>(prop, m, threads, ctx, pool.len() <= 4);
        tot_states += o.states;
        tot_trans += o.transitions;
        tot_pairs += o.pair_checks;
        nontrivial += o.rejected + o.noop;
        outs.push(json!({"rep": AM::NAME, "closure": hist_json(&o)}));
    }
    if thorough {
        let ids: Vec<usize> = (0..6).collect();
        let m = model_for::<AM>("contiguous order 4, ids 0..=5", vec![("empty(4)".into(), AM::empty(4), Abs::empty(4))], ids.clone(), all_pairs(&[0, 1, 2, 3]), &[], false);
        let (o, _) = run_model::<AM>(prop, m, threads, ctx, false);
        tot_states += o.states;
        tot_trans += o.transitions;
        nontrivial += o.rejected + o.noop;
        outs.push(json!({"rep": AM::NAME, "closure": hist_json(&o)}));
    }
    // AdjacencyMatrix across 64-bit word boundaries
    let ax_orders: &[usize] = if thorough { &[8, 9, 11, 12, 16, 23, 24, 32] } else { &[8, 9, 11, 16] };
    for &n in ax_orders {
        let pairs = ax_window(n);
        let ids: Vec<usize> = {
            let mut s: BTreeSet<usize> = pairs.iter().flat_map(|&(u, v)| [u, v]).collect();
            s.insert(n);
            s.into_iter().collect()
        };
        let m = model_for::<AX>(&format!("order {n}, window {pairs:?}"), fixed_inits::<AX>(n, true), ids, pairs, &[], true);
        let (o, items) = run_model::<AX>(prop, m, threads, ctx, true);
        g_ax.push(items);
        tot_states += o.states;
        tot_trans += o.transitions;
        tot_pairs += o.pair_checks;
        nontrivial += o.rejected + o.noop;
        outs.push(json!({"rep": AX::NAME, "closure": hist_json(&o)}));
    }
    // digraphs of different orders never compare equal (closed state sets of different models)
    let cross = cross_pass(&g_al, ctx) + cross_pass(&g_ax, ctx) + cross_pass(&g_el, ctx) + cross_pass(&g_wu, ctx) + cross_pass(&g_wi, ctx);
    tot_pairs += cross;
    ctx.cases += tot_states;
    ctx.execs += tot_trans + tot_pairs;
    ctx.nontrivial_cases += nontrivial.min(tot_trans);
    if ctx.samples.is_empty() {
        ctx.samples.push(json!({"history_example": ["add_arc(0,1)", "add_arc(0,1)", "remove_arc(0,1)", "add_arc(1,1) -> rejected", "toggle(2,0)"], "note": "every reachable state × every action of the alphabet is executed; see coverage.closures"}));
    }
    json!({"closures": outs, "closure_states_total": tot_states, "closure_transitions_total": tot_trans, "pairwise_checks_total": tot_pairs, "cross_order_pair_checks": cross})
}

pub fn c01(tier: &str, seed: u64) -> Check {
    let report = super::report(
        "C01",
        tier,
        seed,
        "explicit-state search (stateright BFS) to closure: states are (real digraph, reference (V,A,w)); the transition function is the real add_arc / add_arc_weighted / remove_arc / toggle applied to a clone under catch_unwind; alphabet = every ordered pair over V ∪ {order, order+1} incl. self-loops (rejected calls are part of the alphabet), weights {1,2} ({-1,2}); initial states = empty(n) plus every generator / operator / From conversion of that order. After every transition: panic iff the call must be rejected and then the digraph is unchanged, remove_arc's return value, full observation (vertices()/arcs()/arcs_weighted() ascending, no self-loop, endpoints in V, order(), size()) equals the reference, has_arc on every pair of ids incl. ids just outside V, == against a freshly built digraph. distinct_nontrivial = transitions that are rejected calls, no-ops (re-add, removal of an absent arc) or weight replacements.",
        &["orders ≥ 5 only through AdjacencyMatrix word-boundary windows (orders 8, 9, 11; 12, 16, 23 thorough)", "weights outside the alphabet are not distinguished by these operations (no arithmetic on them)", "the state hash uses the Debug rendering of the real value, not its own Hash impl"],
        json!({"max_order_full_alphabet": 4, "max_order_weighted": if tier == "thorough" {4} else {3}}),
    );
    let tier2 = tier.to_string();
    Check { spaces: vec![], report, post: Some(Box::new(move |ctx| run_all("C01", &tier2, ctx))) }
}

pub fn c20(tier: &str, seed: u64) -> Check {
    let report = super::report(
        "C20",
        tier,
        seed,
        "explicit-state closure as in C01 (same models, same transition function) followed by a pass over the closed state set: (a) the number of distinct internal values (Debug rendering) equals the number of distinct abstract digraphs — one concrete value per abstract digraph whatever history (adds, removes, toggles, generators, operators, conversions, From iterators) reached it; (b) for EVERY ordered pair of closed states: == iff same (V,A,w), != its negation, cmp == Equal iff ==, antisymmetry, partial_cmp = cmp, the operators <, <=, >, >= agree with cmp, equal ⇒ equal DefaultHasher output; (c) every transition is applied to a clone and the original is compared before/after, and x.clone_from(&y) makes x ==/hash/cmp-equal to y for every ordered pair of closed states (a fixed selection of partners per state in closures of more than 1100 states) and for every cross-order pair; (d) is_complete() on every closed state; (e) for every ordered pair of closed states taken from closures of DIFFERENT orders of one representation (orders 1..=4 and the AdjacencyMatrix windows): == is false, cmp is not Equal, antisymmetric, and agrees with partial_cmp. distinct_nontrivial as in C01.",
        &["orders ≤ 3 (4 thorough) plus AdjacencyMatrix windows and the AdjacencyMap id pool", "Hash is compared through DefaultHasher only"],
        json!({"max_order": 4}),
    );
    let tier2 = tier.to_string();
    Check { spaces: vec![], report, post: Some(Box::new(move |ctx| run_all("C20", &tier2, ctx))) }
}

/// Replays an action path on the real code by a plain loop, without the checker.
pub fn replay(file: &Value) -> i32 {
    let d = file.get("detail").cloned().unwrap_or(Value::Null);
    let rep = d.get("rep").and_then(Value::as_str).unwrap_or("");
    let acts: Vec<Act> = d.get("actions").and_then(Value::as_array).map(|a| a.iter().filter_map(Act::from_json).collect()).unwrap_or_default();
    let inits: Vec<String> = d.get("initial_states").and_then(Value::as_array).map(|a| a.iter().filter_map(|x| x.as_str().map(str::to_string)).collect()).unwrap_or_default();
    println!("replaying {} actions on {rep} from each of {} initial states", acts.len(), inits.len());
    fn go<R: HistRep>(inits: Vec<(String, R, Abs)>, acts: &[Act]) -> bool {
        let mut any = false;
        for (label, d, abs) in inits {
            let (mut d, mut abs) = (d, abs);
            let ids: Vec<usize> = {
                let mut s: BTreeSet<usize> = abs.v.iter().copied().collect();
                for a in acts {
                    let (u, v) = match *a {
                        Act::Add(u, v) | Act::Remove(u, v) | Act::Toggle(u, v) | Act::AddW(u, v, _) => (u, v),
                    };
                    s.insert(u);
                    s.insert(v);
                }
                s.into_iter().collect()
            };
            for (i, a) in acts.iter().enumerate() {
                let (fault, _) = step(&mut d, &mut abs, *a, &ids);
                if let Some(f) = fault {
                    println!("  from {label}: step {i} {a:?}: {f}");
                    any = true;
                    break;
                }
            }
        }
        any
    }
    let n_guess = d.get("reached_abstract").and_then(|a| a.get("V")).and_then(Value::as_array).map_or(3, Vec::len);
    let bad = match rep {
        "AdjacencyList" => go(fixed_inits::<AL>(n_guess, true), &acts),
        "AdjacencyMatrix" => go(fixed_inits::<AX>(n_guess, n_guess <= 5), &acts),
        "EdgeList" => go(fixed_inits::<EL>(n_guess, true), &acts),
        "AdjacencyListWeighted<usize>" => go(fixed_inits::<WU>(n_guess, true), &acts),
        "AdjacencyListWeighted<isize>" => go(fixed_inits::<WI>(n_guess, true), &acts),
        "AdjacencyMap" => {
            let mut i: Vec<(String, AM, Abs)> = vec![("empty(1)".into(), AM::empty(1), Abs::empty(1)), ("empty(2)".into(), AM::empty(2), Abs::empty(2)), ("empty(4)".into(), AM::empty(4), Abs::empty(4))];
            i.extend(AM::extra_inits(3));
            go(i, &acts)
        }
        _ => false,
    };
    let _ = write_replay;
    if bad {
        1
    } else {
        println!("  no fault reproduced by the plain replay");
        0
    }
}
