//! C14 (deterministic generators), C15 (seeded random generators), C16
//! (conversions).

use crate::core::{guarded, Ctx, Space};
use crate::refm::Abs;
use crate::reps::*;
use crate::spacesx::*;
use crate::Check;
use graaf::gen::prng::Xoshiro256StarStar;
use graaf::*;
use serde_json::{json, Value};
use std::collections::{BTreeMap, BTreeSet};
use std::sync::Arc;

/// Unweighted representations with all eleven generators.
pub trait GenRep: Rep + Complete + Circuit + Cycle + Path + Star + Wheel + Biclique + RandomTournament + RandomRecursiveTree + ErdosRenyi + Complement + Union {}
impl GenRep for AL {}
impl GenRep for AM {}
impl GenRep for AX {}
impl GenRep for EL {}

// closed forms --------------------------------------------------------------

pub fn closed_form(name: &str, n: usize) -> Abs {
    let pairs = Abs::pairs(n);
    match name {
        "empty" => Abs::empty(n),
        "complete" => Abs::from_arcs(n, pairs),
        "circuit" => Abs::from_arcs(n, (0..n).filter(|_| n > 1).map(|i| (i, (i + 1) % n))),
        "cycle" => Abs::from_arcs(n, (0..n).filter(|_| n > 1).flat_map(|i| [(i, (i + 1) % n), ((i + 1) % n, i)])),
        "path" => Abs::from_arcs(n, (0..n.saturating_sub(1)).map(|i| (i, i + 1))),
        "star" => Abs::from_arcs(n, (1..n).flat_map(|i| [(0, i), (i, 0)])),
        "wheel" => {
            // star(n) ∪ the cycle through 1..n-1
            let mut a = closed_form("star", n);
            let k = n - 1; // rim length
            for i in 0..k {
                let (x, y) = (1 + i, 1 + (i + 1) % k);
                a.a.insert((x, y));
                a.a.insert((y, x));
            }
            a
        }
        _ => unreachable!(),
    }
}

pub fn biclique_form(m: usize, n: usize) -> Abs {
    let mut a = Abs::empty(m + n);
    for u in 0..m {
        for v in m..m + n {
            a.a.insert((u, v));
            a.a.insert((v, u));
        }
    }
    a
}

fn gen_call<R: GenRep>(name: &str, n: usize) -> R {
    match name {
        "empty" => R::empty(n),
        "complete" => R::complete(n),
        "circuit" => R::circuit(n),
        "cycle" => R::cycle(n),
        "path" => R::path(n),
        "star" => R::star(n),
        "wheel" => R::wheel(n),
        _ => unreachable!(),
    }
}

const GENS: [&str; 7] = ["empty", "complete", "circuit", "cycle", "path", "star", "wheel"];

fn check_gen<R: GenRep>(name: &str, n: usize, parinfo: &str, ctx: &mut Ctx) -> Option<R> {
    ctx.exec();
    let admissible = if name == "wheel" { n >= 4 } else { n >= 1 };
    let det = || json!({"rep": R::NAME, "generator": name, "order": n, "worker_threads": parinfo});
    match guarded(|| gen_call::<R>(name, n)) {
        Err(e) => {
            if admissible {
                ctx.fail(format!("{}::{name}({n}) panicked: {e}", R::NAME), det());
            }
            None
        }
        Ok(d) => {
            if !admissible {
                ctx.fail(format!("{}::{name}({n}) did not panic for an inadmissible order", R::NAME), det());
                return None;
            }
            let want = closed_form(name, n);
            match observe(&d) {
                Err(e) => {
                    ctx.fail(format!("{}::{name}({n}) is not a valid digraph: {e}", R::NAME), det());
                    None
                }
                Ok(o) => {
                    if !same::<R>(&o, &want) {
                        let missing: Vec<_> = want.a.difference(&o.a).take(6).collect();
                        let extra: Vec<_> = o.a.difference(&want.a).take(6).collect();
                        ctx.fail(format!("{}::{name}({n}) differs from its defining arc set: order {} (want {}), missing arcs {missing:?}, extra arcs {extra:?}", R::NAME, o.n(), want.n()), det());
                        None
                    } else {
                        Some(d)
                    }
                }
            }
        }
    }
}

fn c14_order_space(lo: usize, hi: usize) -> Space {
    let total = (hi - lo + 1) as u64;
    Space::new("c14.orders", vec![lo as u64, hi as u64], total, format!("the seven order-parameterised generators at every order {lo}..={hi} in the four unweighted representations, compared with the closed form and with each other"), move |idx, ctx| {
        let n = lo + idx as usize;
        par(1 + n % 4);
        for name in GENS {
            let a = check_gen::<AL>(name, n, "1 + n % 4", ctx);
            let m = check_gen::<AM>(name, n, "-", ctx);
            let x = check_gen::<AX>(name, n, "-", ctx);
            let e = check_gen::<EL>(name, n, "-", ctx);
            // all representations produce the same digraph (through conversions)
            if let (Some(a), Some(m), Some(x), Some(e)) = (a, m, x, e) {
                ctx.exec();
                let ok = guarded(|| AL::from(m.clone()) == a && AL::from(x.clone()) == a && AL::from(e.clone()) == a && AX::from(a.clone()) == x && EL::from(a.clone()) == e && AM::from(a.clone()) == m);
                if ok != Ok(true) {
                    ctx.fail(format!("{name}({n}): representations disagree after conversion: {ok:?}"), json!({"generator": name, "order": n}));
                }
            }
        }
        if (n * n) % 64 != 0 && n >= 8 {
            ctx.nontrivial();
        }
        if n * n > 64 && (n * n - 1) / 64 != (n * n - n) / 64 {
            ctx.tag("orders_whose_last_row_crosses_a_word_boundary");
        }
        ctx.sample(|| json!({"order": n, "generators": GENS, "reps": 4}));
    })
}

fn c14_complete_par_space(maxn: usize, maxpar: usize) -> Space {
    let total = (maxn * (maxpar + 1)) as u64;
    Space::new("c14.complete_par", vec![maxn as u64, maxpar as u64], total, format!("AdjacencyList::complete(n) for every n in 1..={maxn} × worker threads 1..={maxpar} and the Err answer of available_parallelism"), move |idx, ctx| {
        let n = 1 + (idx as usize) / (maxpar + 1);
        let p = (idx as usize) % (maxpar + 1);
        if p == 0 {
            par_err();
        } else {
            par(p);
        }
        let _ = check_gen::<AL>("complete", n, &if p == 0 { "Err".to_string() } else { p.to_string() }, ctx);
        if p > 0 && n > p && n % n.div_ceil(p) != 0 {
            ctx.nontrivial();
            ctx.tag("ragged_last_chunk");
        }
        if p > n {
            ctx.tag("more_workers_than_rows");
        }
        ctx.sample(|| json!({"generator": "AdjacencyList::complete", "order": n, "worker_threads": if p == 0 { json!("Err") } else { json!(p) }}));
    })
    .procs()
}

static BICLIQUE_SIDES: [usize; 10] = [1, 2, 3, 31, 32, 33, 63, 64, 65, 100];

fn c14_biclique_space(maxm: usize) -> Space {
    let k = maxm + 1;
    let nb = BICLIQUE_SIDES.len();
    Space::new("c14.biclique", vec![maxm as u64, nb as u64], (k * k + nb * nb) as u64, format!("biclique(m, n) for every (m, n) in 0..={maxm} × 0..={maxm} (zero = inadmissible) and every (m, n) in {BICLIQUE_SIDES:?}² (orders up to 200: sides on both sides of the 32/64-bit boundaries) in four representations; claw, utility, trivial"), move |idx, ctx| {
        let idx_u = idx as usize;
        let (m, n) = if idx_u < k * k { (idx_u % k, idx_u / k) } else { (BICLIQUE_SIDES[(idx_u - k * k) % nb], BICLIQUE_SIDES[(idx_u - k * k) / nb]) };
        let admissible = m > 0 && n > 0;
        fn one<R: GenRep>(m: usize, n: usize, admissible: bool, ctx: &mut Ctx) {
            ctx.exec();
            let det = || json!({"rep": R::NAME, "generator": "biclique", "m": m, "n": n});
            match guarded(|| R::biclique(m, n)) {
                Err(e) => {
                    if admissible {
                        ctx.fail(format!("{}::biclique({m}, {n}) panicked: {e}", R::NAME), det());
                    }
                }
                Ok(d) => {
                    if !admissible {
                        ctx.fail(format!("{}::biclique({m}, {n}) did not panic", R::NAME), det());
                    } else if observe(&d).map_or(true, |o| !same::<R>(&o, &biclique_form(m, n))) {
                        ctx.fail(format!("{}::biclique({m}, {n}) differs from u<->v for u < m <= v < m+n", R::NAME), det());
                    }
                }
            }
        }
        one::<AL>(m, n, admissible, ctx);
        one::<AM>(m, n, admissible, ctx);
        one::<AX>(m, n, admissible, ctx);
        one::<EL>(m, n, admissible, ctx);
        if idx == 0 {
            fn named<R: GenRep>(ctx: &mut Ctx) {
                ctx.execs_n(3);
                let ok = guarded(|| {
                    observe(&R::trivial()).is_ok_and(|o| o == Abs::empty(1)) && observe(&R::claw()).is_ok_and(|o| same::<R>(&o, &biclique_form(1, 3))) && observe(&R::utility()).is_ok_and(|o| same::<R>(&o, &biclique_form(3, 3)))
                });
                if ok != Ok(true) {
                    ctx.fail(format!("{}: trivial/claw/utility are not empty(1)/biclique(1,3)/biclique(3,3): {ok:?}", R::NAME), json!({}));
                }
            }
            named::<AL>(ctx);
            named::<AM>(ctx);
            named::<AX>(ctx);
            named::<EL>(ctx);
        }
        if admissible && m != n {
            ctx.nontrivial();
        }
        ctx.sample(|| json!({"generator": "biclique", "m": m, "n": n}));
    })
}

pub fn c14(tier: &str, seed: u64) -> Check {
    let thorough = tier == "thorough";
    let mut spaces = Vec::new();
    if thorough {
        spaces.push(c14_order_space(0, 300));
        spaces.push(c14_complete_par_space(140, 66));
        spaces.push(c14_biclique_space(40));
    } else {
        spaces.push(c14_order_space(0, 130));
        spaces.push(c14_complete_par_space(70, 33));
        spaces.push(c14_biclique_space(16));
    }
    let report = super::report(
        "C14",
        tier,
        seed,
        "exhaustive over the parameter ranges: every order 0..=130 (0..=300 thorough) × seven generators × four representations against closed-form arc sets (order 0 and wheel < 4 must panic) and against each other through the From conversions; AdjacencyList::complete(n) for every n ≤ 70 (140) × every worker count 1..=33 (66) and the Err answer; biclique(m, n) for every (m, n) ≤ 16 (40) incl. zeros and for sides {1,2,3,31,32,33,63,64,65,100}²; trivial/claw/utility. Non-trivial: order² not a multiple of 64 (bit matrix tail) / ragged last chunk / m != n.",
        &["orders above 130 (300 thorough) are not explored", "worker count through the cfg(graaf_verif) seam"],
        json!({"orders": if thorough { json!("0..=300") } else { json!("0..=130") }}),
    );
    Check { spaces, report, post: None }
}

// ------------------------------------------------------------------ C15

fn valid_tournament(o: &Abs, n: usize) -> Result<(), String> {
    if o.v != (0..n).collect() {
        return Err(format!("vertex set is {:?}", o.v));
    }
    for u in 0..n {
        for v in (u + 1)..n {
            if o.has(u, v) == o.has(v, u) {
                return Err(format!("pair {{{u},{v}}} is joined by {} arcs", if o.has(u, v) { 2 } else { 0 }));
            }
        }
    }
    Ok(())
}

fn valid_rrt(o: &Abs, n: usize) -> Result<(), String> {
    if o.v != (0..n).collect() {
        return Err(format!("vertex set is {:?}", o.v));
    }
    if o.outdeg(0) != 0 {
        return Err("vertex 0 has an out-arc".into());
    }
    for u in 1..n {
        let out = o.out(u);
        if out.len() != 1 || out[0] >= u {
            return Err(format!("vertex {u} has out-neighbours {out:?}; expected exactly one, smaller than {u}"));
        }
    }
    Ok(())
}

static SEEDS_Q: [u64; 70] = {
    let mut s = [0u64; 70];
    let mut i = 0;
    while i < 64 {
        s[i] = i as u64;
        i += 1;
    }
    s[64] = 1 << 32;
    s[65] = u64::MAX - 1;
    s[66] = u64::MAX;
    s[67] = 0x9E37_79B9_7F4A_7C15;
    s[68] = 1 << 63;
    s[69] = 12345678901234567;
    s
};

fn seed_at(i: u64, nseeds: u64) -> u64 {
    if i < 70 {
        SEEDS_Q[i as usize]
    } else {
        let _ = nseeds;
        i
    }
}

const PS: [f64; 7] = [0.0, 9.094947017729282e-13, 0.25, 0.5, 0.5000000000009095, 0.75, 1.0];
const BAD_PS: [f64; 5] = [-9.094947017729282e-13, 1.0000000000009095, f64::NAN, f64::INFINITY, f64::NEG_INFINITY];

fn rand_checks<R: GenRep>(n: usize, seed: u64, ctx: &mut Ctx) {
    let rn = R::NAME;
    let det = |g: &str| json!({"rep": rn, "generator": g, "order": n, "seed": seed});
    // tournament
    ctx.execs_n(2);
    match guarded(|| (R::random_tournament(n, seed), R::random_tournament(n, seed))) {
        Err(e) => ctx.fail(format!("{rn}::random_tournament({n}, {seed}) panicked: {e}"), det("random_tournament")),
        Ok((a, b)) => {
            if a != b {
                ctx.fail(format!("{rn}::random_tournament({n}, {seed}) called twice returned different digraphs"), det("random_tournament"));
            }
            match observe(&a) {
                Err(e) => ctx.fail(format!("{rn}::random_tournament({n}, {seed}): {e}"), det("random_tournament")),
                Ok(o) => {
                    if let Err(e) = valid_tournament(&o, n) {
                        ctx.fail(format!("{rn}::random_tournament({n}, {seed}) is not a tournament: {e}"), det("random_tournament"));
                    }
                    *ctx.outcomes.entry(format!("tournament {rn} n={n}: distinct digraphs")).or_insert(0) += 0;
                }
            }
        }
    }
    // recursive tree
    ctx.execs_n(2);
    match guarded(|| (R::random_recursive_tree(n, seed), R::random_recursive_tree(n, seed))) {
        Err(e) => ctx.fail(format!("{rn}::random_recursive_tree({n}, {seed}) panicked: {e}"), det("random_recursive_tree")),
        Ok((a, b)) => {
            if a != b {
                ctx.fail(format!("{rn}::random_recursive_tree({n}, {seed}) called twice returned different digraphs"), det("random_recursive_tree"));
            }
            match observe(&a) {
                Err(e) => ctx.fail(format!("{rn}::random_recursive_tree({n}, {seed}): {e}"), det("random_recursive_tree")),
                Ok(o) => {
                    if let Err(e) = valid_rrt(&o, n) {
                        ctx.fail(format!("{rn}::random_recursive_tree({n}, {seed}) is not a recursive tree: {e}"), det("random_recursive_tree"));
                    }
                }
            }
        }
    }
    // erdos-renyi
    for p in PS {
        ctx.execs_n(2);
        match guarded(|| (R::erdos_renyi(n, p, seed), R::erdos_renyi(n, p, seed))) {
            Err(e) => ctx.fail(format!("{rn}::erdos_renyi({n}, {p}, {seed}) panicked: {e}"), det("erdos_renyi")),
            Ok((a, b)) => {
                if a != b {
                    ctx.fail(format!("{rn}::erdos_renyi({n}, {p}, {seed}) called twice returned different digraphs"), det("erdos_renyi"));
                }
                match observe(&a) {
                    Err(e) => ctx.fail(format!("{rn}::erdos_renyi({n}, {p}, {seed}): {e}"), det("erdos_renyi")),
                    Ok(o) => {
                        if o.v != (0..n).collect() {
                            ctx.fail(format!("{rn}::erdos_renyi({n}, {p}, {seed}) has vertex set {:?}", o.v), det("erdos_renyi"));
                        } else if p == 0.0 && !o.a.is_empty() {
                            ctx.fail(format!("{rn}::erdos_renyi({n}, 0, {seed}) has {} arcs", o.a.len()), det("erdos_renyi"));
                        } else if p == 1.0 && o.a.len() != n * (n - 1) {
                            ctx.fail(format!("{rn}::erdos_renyi({n}, 1, {seed}) has {} arcs, complete has {}", o.a.len(), n * (n - 1)), det("erdos_renyi"));
                        }
                    }
                }
            }
        }
    }
}

pub fn rand_checks_pub(n: usize, seed: u64, ctx: &mut Ctx) {
    rand_checks::<AL>(n, seed, ctx);
    rand_checks::<AM>(n, seed, ctx);
    rand_checks::<AX>(n, seed, ctx);
    rand_checks::<EL>(n, seed, ctx);
}

fn c15_space<R: GenRep>(maxn: usize, nseeds: u64, pars: usize) -> Space {
    let total = maxn as u64 * nseeds * pars as u64;
    let sp = Space::new("c15.gen", vec![R::ID, maxn as u64, nseeds, pars as u64], total, format!("random_tournament / random_recursive_tree / erdos_renyi (p ∈ {PS:?}) in {} for every order 1..={maxn} × {nseeds} seeds (0..63, 2^32, u64::MAX-1, u64::MAX, ...) × worker threads 1..={pars}, each called twice", R::NAME), move |idx, ctx| {
        let n = 1 + (idx % maxn as u64) as usize;
        let si = idx / maxn as u64 % nseeds;
        let p = 1 + (idx / maxn as u64 / nseeds) as usize;
        par(p);
        let seed = seed_at(si, nseeds);
        rand_checks::<R>(n, seed, ctx);
        if n > p && p > 1 {
            ctx.nontrivial();
        } else if pars == 1 && n >= 3 {
            ctx.nontrivial();
        }
        ctx.sample(|| json!({"rep": R::NAME, "order": n, "seed": seed, "worker_threads": p}));
    });
    if pars > 1 {
        sp.procs()
    } else {
        sp
    }
}

fn c15_invalid_space() -> Space {
    Space::new("c15.invalid", vec![], 9 * BAD_PS.len() as u64, "erdos_renyi with p outside [0, 1] (just below 0, just above 1, NaN, ±∞) must panic, orders 1..=9, four representations; order 0 must panic for all three generators", move |idx, ctx| {
        let n = 1 + (idx % 9) as usize;
        let p = BAD_PS[(idx / 9) as usize];
        fn one<R: GenRep>(n: usize, p: f64, ctx: &mut Ctx) {
            ctx.exec();
            if guarded(|| R::erdos_renyi(n, p, 7)).is_ok() {
                ctx.fail(format!("{}::erdos_renyi({n}, {p}, 7) did not panic", R::NAME), json!({"order": n, "p": format!("{p}")}));
            }
            if n == 1 {
                ctx.execs_n(3);
                if guarded(|| R::erdos_renyi(0, 0.5, 7)).is_ok() || guarded(|| R::random_tournament(0, 7)).is_ok() || guarded(|| R::random_recursive_tree(0, 7)).is_ok() {
                    ctx.fail(format!("{}: a random generator accepted order 0", R::NAME), json!({}));
                }
            }
        }
        one::<AL>(n, p, ctx);
        one::<AM>(n, p, ctx);
        one::<AX>(n, p, ctx);
        one::<EL>(n, p, ctx);
        ctx.nontrivial();
        ctx.sample(|| json!({"order": n, "p": format!("{p}")}));
    })
}

fn c15_f64_space(nseeds: u64, draws: usize) -> Space {
    Space::new("c15.next_f64", vec![nseeds, draws as u64], nseeds, format!("Xoshiro256StarStar::next_f64: first {draws} draws for every seed 0..{nseeds} and the same count down from u64::MAX lie in [0, 1) and repeat exactly for equal seeds"), move |idx, ctx| {
        for seed in [idx, u64::MAX - idx, idx.wrapping_mul(0x9E37_79B9_7F4A_7C15)] {
            let mut a = Xoshiro256StarStar::new(seed);
            let mut b = Xoshiro256StarStar::new(seed);
            for k in 0..draws {
                ctx.exec();
                let (x, y) = (a.next_f64(), b.next_f64());
                if !(0.0..1.0).contains(&x) {
                    ctx.fail(format!("next_f64() draw {k} for seed {seed} = {x} is outside [0, 1)"), json!({"seed": seed}));
                }
                if x.to_bits() != y.to_bits() {
                    ctx.fail(format!("two generators with seed {seed} disagree at draw {k}"), json!({"seed": seed}));
                }
            }
        }
        ctx.nontrivial();
        ctx.sample(|| json!({"seeds": [idx, u64::MAX - idx], "draws": draws}));
    })
}

// Seeds whose FIRST 64-bit draw is a chosen boundary value. The harness inverts the
// published seeding (SplitMix64 state expansion, xoshiro256** output function) to find
// them; whether the inversion still matches the code is measured at run time (tag
// `boundary_first_draws_realised`), so a changed seeding only turns these into ordinary
// seeds and never into an alarm.
fn inv_odd(a: u64) -> u64 {
    let mut x = a;
    for _ in 0..6 {
        x = x.wrapping_mul(2u64.wrapping_sub(a.wrapping_mul(x)));
    }
    x
}
fn unxorshift(y: u64, k: u32) -> u64 {
    let mut x = y;
    for _ in 0..(64 / k + 1) {
        x = y ^ (x >> k);
    }
    x
}
pub fn seed_for_first_draw(o: u64) -> u64 {
    const G: u64 = 0x9E37_79B9_7F4A_7C15;
    // first output = rotl(state[1] * 5, 7) * 9
    let s1 = o.wrapping_mul(inv_odd(9)).rotate_right(7).wrapping_mul(inv_odd(5));
    // state[1] = second SplitMix64 output of the seed
    let z = unxorshift(s1, 31).wrapping_mul(inv_odd(0x94D0_49BB_1331_11EB));
    let z = unxorshift(z, 27).wrapping_mul(inv_odd(0xBF58_476D_1CE4_E5B9));
    unxorshift(z, 30).wrapping_sub(G.wrapping_mul(2))
}

fn c15_boundary_space() -> Space {
    const MANT: [u64; 6] = [(1 << 52) - 1, 0, 1, 1 << 51, (1 << 52) - 2, (1 << 51) - 1];
    const HIGH: [u64; 5] = [0, 0xFFF, 0x800, 0x001, 0x555];
    Space::new("c15.boundary_draws", vec![], (MANT.len() * HIGH.len()) as u64, "seeds whose first 64-bit draw has a boundary mantissa (all ones, zero, 1, 2^51, ...) under five settings of the 12 high bits: next_f64 in [0,1), erdos_renyi p = 1 complete and p = 0 empty at orders 2..4 in four representations, generators valid", move |idx, ctx| {
        let target = (HIGH[(idx as usize) / MANT.len()] << 52) | MANT[(idx as usize) % MANT.len()];
        let seed = seed_for_first_draw(target);
        ctx.exec();
        if Xoshiro256StarStar::new(seed).next() == Some(target) {
            ctx.tag("boundary_first_draws_realised");
            ctx.nontrivial();
        }
        let mut a = Xoshiro256StarStar::new(seed);
        for k in 0..4 {
            ctx.exec();
            let x = a.next_f64();
            if !(0.0..1.0).contains(&x) {
                ctx.fail(format!("next_f64() draw {k} for seed {seed} = {x} is outside [0, 1) (first 64-bit draw {target:#x})"), json!({"seed": seed}));
            }
        }
        for n in 2..=4 {
            rand_checks::<AL>(n, seed, ctx);
            rand_checks::<AM>(n, seed, ctx);
            rand_checks::<AX>(n, seed, ctx);
            rand_checks::<EL>(n, seed, ctx);
        }
        ctx.sample(|| json!({"seed": seed, "first_draw": format!("{target:#018x}")}));
    })
}

pub fn c15(tier: &str, seed: u64) -> Check {
    let thorough = tier == "thorough";
    let mut spaces = Vec::new();
    if thorough {
        spaces.push(c15_space::<AL>(20, 1024, 1));
        spaces.push(c15_space::<AX>(20, 1024, 1));
        spaces.push(c15_space::<EL>(20, 1024, 1));
        spaces.push(c15_space::<AM>(20, 70, 16));
        spaces.push(c15_f64_space(1 << 22, 8));
    } else {
        spaces.push(c15_space::<AL>(12, 70, 1));
        spaces.push(c15_space::<AX>(12, 70, 1));
        spaces.push(c15_space::<EL>(12, 70, 1));
        spaces.push(c15_space::<AM>(8, 24, 8));
        spaces.push(c15_space::<AM>(18, 3, 17));
        spaces.push(c15_f64_space(1 << 16, 4));
    }
    spaces.push(c15_invalid_space());
    spaces.push(c15_boundary_space());
    spaces.push(crate::props::large::c15_big(thorough));
    let report = super::report(
        "C15",
        tier,
        seed,
        "exhaustive over the enumerated parameter grid: every order 1..=12 (20; AdjacencyMap 8 resp. 18 with threads) × 70 (1024) seeds incl. 0..63, 2^32, u64::MAX-1, u64::MAX × p ∈ {0, 2^-40, 0.25, 0.5, 0.5+2^-40, 0.75, 1} × four representations, the threaded AdjacencyMap variants for every worker count 1..=8 (..17 at order ≤ 18); each call made twice. Oracle: tournament / recursive-tree / simple-digraph-on-0..n definitions, p=0 ⇒ no arcs, p=1 ⇒ all arcs, equal arguments ⇒ equal results, p outside [0,1] (5 values incl. NaN, ±∞) and order 0 panic; next_f64 ∈ [0,1) for seeds 0..2^16 (2^22), their complements and a multiplicative scramble, first 4 (8) draws; plus 30 seeds computed (by inverting the seeding) so that the FIRST 64-bit draw has a boundary mantissa — all ones, zero, 1, 2^51 — under five high-bit patterns (realisation measured at run time). Interleavings of the AdjacencyMap generators' workers are explored by the schedule engine (coverage.schedules). Non-trivial: order > workers > 1 (threaded), order ≥ 3 otherwise.",
        &["'all u64 seeds' is decided only on the enumerated seeds; next_f64 ∈ [0,1) for every seed follows from the 52-bit mantissa construction, an arithmetic argument outside this technique", "outputs for 0 < p < 1 are not compared across representations or worker counts (allowed to differ)"],
        json!({"max_order": if thorough {20} else {12}, "seeds": if thorough {1024} else {70}}),
    );
    let tier2 = tier.to_string();
    Check { spaces, report, post: Some(Box::new(move |ctx| crate::props::conf::run_sched("C15", &tier2, ctx))) }
}

// ------------------------------------------------------------------ C16

pub fn conv_all_pub(abs: &Abs, ctx: &mut Ctx) {
    conv_all(abs, ctx);
}

fn conv_all(abs: &Abs, ctx: &mut Ctx) {
    let det = || json!({"digraph": abs.arcs_json()});
    let r = guarded(|| {
        let al = mk::<AL>(abs);
        let am = mk::<AM>(abs);
        let ax = mk::<AX>(abs);
        let el = mk::<EL>(abs);
        let mut bad: Vec<String> = Vec::new();
        macro_rules! conv {
            ($src:expr, $sn:expr, $dst:ty, $want:expr) => {{
                let got = <$dst>::from($src.clone());
                if got != $want {
                    bad.push(format!("{} -> {}", $sn, <$dst as Rep>::NAME));
                }
                match observe(&got) {
                    Ok(o) if same::<$dst>(&o, abs) => {}
                    _ => bad.push(format!("{} -> {} (observed)", $sn, <$dst as Rep>::NAME)),
                }
                // round trip
                got
            }};
        }
        let n = 12;
        let a2m = conv!(al, "AdjacencyList", AM, am);
        let a2x = conv!(al, "AdjacencyList", AX, ax);
        let a2e = conv!(al, "AdjacencyList", EL, el);
        let m2a = conv!(am, "AdjacencyMap", AL, al);
        let m2x = conv!(am, "AdjacencyMap", AX, ax);
        let m2e = conv!(am, "AdjacencyMap", EL, el);
        let x2a = conv!(ax, "AdjacencyMatrix", AL, al);
        let x2m = conv!(ax, "AdjacencyMatrix", AM, am);
        let x2e = conv!(ax, "AdjacencyMatrix", EL, el);
        let e2a = conv!(el, "EdgeList", AL, al);
        let e2m = conv!(el, "EdgeList", AM, am);
        let e2x = conv!(el, "EdgeList", AX, ax);
        // chains of length 2 back to the origin (round trips through every intermediate)
        if AL::from(a2m) != al || AL::from(a2x) != al || AL::from(a2e) != al {
            bad.push("AdjacencyList round trip".into());
        }
        if AM::from(m2a) != am || AM::from(m2x) != am || AM::from(m2e) != am {
            bad.push("AdjacencyMap round trip".into());
        }
        if AX::from(x2a) != ax || AX::from(x2m) != ax || AX::from(x2e) != ax {
            bad.push("AdjacencyMatrix round trip".into());
        }
        if EL::from(e2a) != el || EL::from(e2m) != el || EL::from(e2x) != el {
            bad.push("EdgeList round trip".into());
        }
        // chain of length 3 through all four
        if AL::from(EL::from(AX::from(AM::from(al.clone())))) != al || AL::from(AM::from(EL::from(AX::from(al.clone())))) != al {
            bad.push("chain AL->AM->AX->EL->AL".into());
        }
        // into the weighted representation: every weight 1
        let unit = Abs { v: abs.v.clone(), a: abs.a.clone(), w: abs.a.iter().map(|&k| (k, 1i128)).collect() };
        macro_rules! wconv {
            ($src:expr, $sn:expr) => {{
                let wu = WU::from($src.clone());
                let wi = WI::from($src.clone());
                if !observe(&wu).is_ok_and(|o| o == unit) {
                    bad.push(format!("{} -> AdjacencyListWeighted<usize>", $sn));
                }
                if !observe(&wi).is_ok_and(|o| o == unit) {
                    bad.push(format!("{} -> AdjacencyListWeighted<isize>", $sn));
                }
            }};
        }
        wconv!(al, "AdjacencyList");
        wconv!(am, "AdjacencyMap");
        wconv!(ax, "AdjacencyMatrix");
        wconv!(el, "EdgeList");
        (bad, n + 8 + 8 + 2)
    });
    match r {
        Err(e) => ctx.fail(format!("a conversion panicked on a valid digraph: {e}"), det()),
        Ok((bad, k)) => {
            ctx.execs_n(k);
            if !bad.is_empty() {
                ctx.fail(format!("conversions that do not preserve the digraph: {bad:?}"), det());
            }
        }
    }
}

fn c16_conv_space(n: usize) -> Space {
    Space::new("c16.conv", vec![n as u64], dcount(n), format!("all 12 conversions between unweighted representations, 8 into AdjacencyListWeighted<usize|isize>, round trips and a 4-chain, on every digraph on 0..{n}"), move |idx, ctx| {
        let abs = Abs::from_mask(n, idx);
        conv_all(&abs, ctx);
        if abs.a.len() >= 2 {
            ctx.nontrivial();
        }
        ctx.sample(|| json!({"digraph": abs.arcs_json(), "conversions": "12 + 8 + round trips"}));
    })
}

/// Orders where 2^(n(n-1)) is out of reach: every digraph with exactly one arc, and
/// every digraph with one arc plus the last off-diagonal cell, at every order in
/// `orders` (each 64-bit block of the bit matrix holding a single bit at every
/// position, including bit 63).
fn c16_single_arc_space(orders: &'static [usize]) -> Space {
    let mut cases: Vec<(usize, usize, usize)> = Vec::new();
    for &n in orders {
        for u in 0..n {
            for v in 0..n {
                if u != v {
                    cases.push((n, u, v));
                }
            }
        }
    }
    let cases = Arc::new(cases);
    Space::new("c16.single_arc", vec![orders.iter().map(|&x| x as u64).sum()], cases.len() as u64 * 2, format!("all conversions on every one-arc digraph (and one arc + the last off-diagonal arc) at orders {orders:?}"), move |idx, ctx| {
        let (n, u, v) = cases[(idx / 2) as usize];
        let mut abs = Abs::from_arcs(n, [(u, v)]);
        if idx % 2 == 1 {
            abs.a.insert((n - 1, n - 2));
        }
        conv_all(&abs, ctx);
        if idx % 2 == 1 {
            // the largest id is n-1, so From<arcs> must give order n: the SAME value (==, hash)
            // as the digraph built by empty(n) + add_arc
            ctx.execs_n(2);
            let arcs: Vec<(usize, usize)> = abs.a.iter().copied().collect();
            let ok = guarded(|| {
                use std::hash::{Hash, Hasher};
                let h = |x: &dyn Fn(&mut std::collections::hash_map::DefaultHasher)| {
                    let mut s = std::collections::hash_map::DefaultHasher::new();
                    x(&mut s);
                    s.finish()
                };
                let (fx, bx) = (AX::from(arcs.clone()), mk::<AX>(&abs));
                let (fe, be) = (EL::from(arcs.clone()), mk::<EL>(&abs));
                (fx == bx && h(&|s| fx.hash(s)) == h(&|s| bx.hash(s)) && fx.cmp(&bx) == std::cmp::Ordering::Equal, fe == be && h(&|s| fe.hash(s)) == h(&|s| be.hash(s)))
            });
            if ok != Ok((true, true)) {
                ctx.fail(format!("From<arcs> does not build the same value (==, cmp, hash) as empty({n}) + add_arc: (AdjacencyMatrix ok, EdgeList ok) = {ok:?}"), json!({"arcs": arcs}));
            }
        }
        if (u * n + v) % 64 == 63 || (u * n + v) % 64 == 0 {
            ctx.nontrivial();
            ctx.tag("single_bit_at_a_word_edge");
        }
        ctx.sample(|| json!({"digraph": abs.arcs_json(), "conversions": "12 + 8 + round trips"}));
    })
}

/// every vector of `len` rows, each row a subset of 0..u (u = universe size)
fn c16_rows_space(len: usize, u: usize) -> Space {
    let per = 1u64 << u;
    let total = per.pow(len as u32);
    Space::new("c16.rows", vec![len as u64, u as u64], total, format!("From<iterator of out-neighbour sets / weight maps>: every vector of {len} rows, each row any subset of 0..{u} (self-loops and out-of-range heads included) for AdjacencyList, AdjacencyMap, AdjacencyListWeighted"), move |idx, ctx| {
        let mut code = idx;
        let rows: Vec<BTreeSet<usize>> = (0..len)
            .map(|_| {
                let m = code % per;
                code /= per;
                subset_of(m, u)
            })
            .collect();
        let valid = rows.iter().enumerate().all(|(i, r)| r.iter().all(|&v| v != i && v < len));
        let want = {
            let mut a = Abs::empty(len);
            for (i, r) in rows.iter().enumerate() {
                for &v in r {
                    a.a.insert((i, v));
                }
            }
            a
        };
        let det = || json!({"rows": rows});
        fn judge<R: Rep>(r: Result<R, String>, valid: bool, want: &Abs, ctx: &mut Ctx, det: &dyn Fn() -> Value) {
            ctx.exec();
            match r {
                Err(_) => {
                    if valid {
                        ctx.fail(format!("{}::from(rows) panicked on valid rows", R::NAME), det());
                    }
                }
                Ok(d) => {
                    if !valid {
                        ctx.fail(format!("{}::from(rows) accepted rows with a self-loop or an out-of-range head", R::NAME), det());
                    } else if !observe(&d).is_ok_and(|o| same::<R>(&o, want)) {
                        ctx.fail(format!("{}::from(rows) does not have exactly those rows", R::NAME), det());
                    }
                }
            }
        }
        judge(guarded(|| AL::from(rows.clone())), valid, &want, ctx, &det);
        judge(guarded(|| AM::from(rows.clone())), valid, &want, ctx, &det);
        // weighted rows: weight = 10*u + v + 1
        let wrows: Vec<BTreeMap<usize, usize>> = rows.iter().enumerate().map(|(i, r)| r.iter().map(|&v| (v, 10 * i + v + 1)).collect()).collect();
        let mut wwant = want.clone();
        wwant.w = want.a.iter().map(|&(a, b)| ((a, b), (10 * a + b + 1) as i128)).collect();
        judge(guarded(|| WU::from(wrows.clone())), valid, &wwant, ctx, &det);
        if !valid {
            ctx.tag("invalid_row_vectors");
        }
        if valid && want.a.len() >= 2 {
            ctx.nontrivial();
        }
        ctx.sample(|| det());
    })
}

/// every sequence of ≤ len arcs over {0..u}²
fn c16_arcs_space(len: usize, u: usize) -> Space {
    let per = (u * u) as u64;
    let total: u64 = (0..=len as u32).map(|l| per.pow(l)).sum();
    Space::new("c16.arcs", vec![len as u64, u as u64], total, format!("From<iterator of arcs>: every sequence of ≤ {len} arcs over {{0..{u}}}² (self-loops, duplicates, the empty sequence) for AdjacencyMatrix and EdgeList"), move |idx, ctx| {
        // decode: length l, then digits
        let mut rest = idx;
        let mut l = 0u32;
        while rest >= per.pow(l) {
            rest -= per.pow(l);
            l += 1;
        }
        let mut arcs = Vec::new();
        for _ in 0..l {
            let d = (rest % per) as usize;
            rest /= per;
            arcs.push((d / u, d % u));
        }
        let has_loop = arcs.iter().any(|&(a, b)| a == b);
        let det = || json!({"arcs": arcs});
        let order = arcs.iter().map(|&(a, b)| a.max(b)).max().map_or(1, |m| m + 1);
        let want = Abs::from_arcs(order, arcs.iter().copied());
        // AdjacencyMatrix: panics on empty input (documented) and on a self-loop
        ctx.exec();
        match guarded(|| AX::from(arcs.clone())) {
            Err(_) => {
                if !has_loop && !arcs.is_empty() {
                    ctx.fail("AdjacencyMatrix::from(arcs) panicked on valid arcs", det());
                }
            }
            Ok(d) => {
                if has_loop || arcs.is_empty() {
                    ctx.fail("AdjacencyMatrix::from(arcs) accepted a self-loop or an empty iterator", det());
                } else if !observe(&d).is_ok_and(|o| o == want) {
                    ctx.fail("AdjacencyMatrix::from(arcs) does not have order = largest id + 1 and exactly those arcs", det());
                }
            }
        }
        // EdgeList: the empty iterator is the order-1 digraph (its docs promise no panic)
        ctx.exec();
        match guarded(|| EL::from(arcs.clone())) {
            Err(_) => {
                if !has_loop {
                    ctx.fail("EdgeList::from(arcs) panicked on valid arcs", det());
                }
            }
            Ok(d) => {
                if has_loop {
                    ctx.fail("EdgeList::from(arcs) accepted a self-loop", det());
                } else if !observe(&d).is_ok_and(|o| o == want) {
                    ctx.fail("EdgeList::from(arcs) does not have order = largest id + 1 and exactly those arcs", det());
                }
            }
        }
        let distinct: BTreeSet<_> = arcs.iter().collect();
        if distinct.len() < arcs.len() && !has_loop {
            ctx.nontrivial();
            ctx.tag("sequences_with_duplicate_arcs");
        }
        ctx.sample(|| det());
    })
}

fn c16_empty_rows() -> Space {
    Space::new("c16.empty", vec![], 1, "From<empty iterator of rows> panics for AdjacencyList, AdjacencyMap, AdjacencyListWeighted (documented)", move |_idx, ctx| {
        ctx.execs_n(3);
        if guarded(|| AL::from(Vec::<BTreeSet<usize>>::new())).is_ok() || guarded(|| AM::from(Vec::<BTreeSet<usize>>::new())).is_ok() || guarded(|| WU::from(Vec::<BTreeMap<usize, usize>>::new())).is_ok() {
            ctx.fail("From<empty iterator of rows> did not panic", json!({}));
        }
        ctx.nontrivial();
        ctx.sample(|| json!({"rows": []}));
    })
}

pub fn c16(tier: &str, seed: u64) -> Check {
    let thorough = tier == "thorough";
    let mut spaces = Vec::new();
    for n in 1..=5 {
        spaces.push(c16_conv_space(n));
    }
    spaces.push(c16_rows_space(1, 3));
    spaces.push(c16_rows_space(2, 4));
    spaces.push(c16_rows_space(3, 4));
    if thorough {
        spaces.push(c16_rows_space(4, 5));
    }
    spaces.push(c16_arcs_space(3, 4));
    if thorough {
        spaces.push(c16_arcs_space(4, 4));
    }
    spaces.push(c16_empty_rows());
    static SQ: [usize; 14] = [5, 6, 7, 8, 9, 10, 11, 12, 13, 16, 17, 23, 24, 33];
    static ST: [usize; 26] = [5, 6, 7, 8, 9, 10, 11, 12, 13, 14, 15, 16, 17, 18, 19, 20, 23, 24, 25, 31, 32, 33, 40, 48, 64, 65];
    spaces.push(c16_single_arc_space(if thorough { &ST } else { &SQ }));
    spaces.push(crate::props::large::c16_big(thorough));
    let report = super::report(
        "C16",
        tier,
        seed,
        "bounded-exhaustive: every digraph on 0..n (n ≤ 4; 5 thorough) through all 12 conversions among the unweighted representations, 8 into AdjacencyListWeighted<usize|isize> (all weights 1), round trips through every intermediate and a chain through all four; From<rows> for every vector of ≤ 3 rows over subsets of 0..4 (4 rows over 0..5 thorough), valid and invalid (self-loop, out-of-range head), for AdjacencyList / AdjacencyMap / weighted rows with distinct weights; From<arcs> for every sequence of ≤ 3 (4) arcs over {0..4}² incl. self-loops, duplicates and the empty sequence. Oracle: same (V, A, w); panic iff documented. Non-trivial: ≥ 2 arcs / duplicate arcs.",
        &["EdgeList::from(empty iterator) is the order-1 digraph (its documentation promises no panic), not a violation", "contiguous ids only, as the property states"],
        json!({"max_order": if thorough {5} else {4}}),
    );
    let _ = Arc::new(0);
    Check { spaces, report, post: None }
}
