//! C11 (complement / converse / union / filter_vertices) and C12 (structural
//! predicates) over every small digraph and every pair of small digraphs.

use crate::core::{guarded, Ctx, Space};
use crate::refm::Abs;
use crate::reps::*;
use crate::spacesx::*;
use crate::Check;
use graaf::*;
use serde_json::{json, Value};
use std::sync::Arc;

/// Representations that implement Complement and Union.
pub trait OpRep: Rep + Complement + Union {
    /// does the number of worker threads matter for this representation?
    const THREADED: bool;
}
impl OpRep for AL {
    const THREADED: bool = true;
}
impl OpRep for AM {
    const THREADED: bool = true;
}
impl OpRep for AX {
    const THREADED: bool = false;
}
impl OpRep for EL {
    const THREADED: bool = false;
}

fn threaded<R: OpRep>(sp: Space) -> Space {
    if R::THREADED {
        sp.procs()
    } else {
        sp
    }
}

/// Observes `got` and compares it with `want`; `what` names the operation.
fn expect<R: Rep>(got: Result<R, String>, want: &Abs, what: &str, det: &dyn Fn() -> Value, ctx: &mut Ctx) -> Option<R> {
    ctx.exec();
    match got {
        Err(e) => {
            ctx.fail(format!("{}::{what} panicked: {e}", R::NAME), det());
            None
        }
        Ok(r) => match observe(&r) {
            Err(e) => {
                ctx.fail(format!("{}::{what} returned an invalid digraph: {e}", R::NAME), det());
                None
            }
            Ok(o) => {
                if !same::<R>(&o, want) {
                    ctx.fail(format!("{}::{what} returned {}, the set definition gives {}", R::NAME, o.arcs_json(), want.arcs_json()), det());
                    None
                } else {
                    Some(r)
                }
            }
        },
    }
}

fn unary_checks<R: OpRep>(abs: &Abs, d: &R, pars: &[usize], ctx: &mut Ctx) {
    let det = || json!({"rep": R::NAME, "digraph": abs.arcs_json()});
    let before = d.clone();
    for &p in pars {
        par(p);
        let detp = || json!({"rep": R::NAME, "digraph": abs.arcs_json(), "worker_threads": p});
        if let Some(c) = expect(guarded(|| d.complement()), &abs.complement(), "complement()", &detp, ctx) {
            let _ = expect(guarded(|| c.complement()), abs, "complement().complement()", &detp, ctx);
        }
    }
    if let Some(c) = expect(guarded(|| d.converse()), &abs.converse(), "converse()", &det, ctx) {
        let _ = expect(guarded(|| c.converse()), abs, "converse().converse()", &det, ctx);
    }
    if *d != before {
        ctx.fail(format!("{}: operand changed by complement()/converse()", R::NAME), det());
    }
}

fn c11_unary_space<R: OpRep>(n: usize, maxpar: usize) -> Space {
    threaded::<R>(Space::new("c11.unary", vec![R::ID, n as u64, maxpar as u64], dcount(n), format!("complement / converse (and their involutions) of every digraph on 0..{n} in {}, worker threads 1..={maxpar}", R::NAME), move |idx, ctx| {
        let abs = Abs::from_mask(n, idx);
        let d: R = mk::<R>(&abs);
        let pars: Vec<usize> = if R::THREADED { (1..=maxpar).collect() } else { vec![1] };
        unary_checks(&abs, &d, &pars, ctx);
        if !abs.a.is_empty() && abs.a.len() < n * (n - 1) && n > 2 {
            ctx.nontrivial();
        }
        ctx.sample(|| json!({"rep": R::NAME, "digraph": abs.arcs_json(), "ops": "complement, converse", "par": pars}));
    }))
}

fn union_checks<R: OpRep>(a: &Abs, b: &Abs, da: &R, db: &R, pars: &[usize], ctx: &mut Ctx) {
    let want = a.union(b);
    let (ca, cb) = (da.clone(), db.clone());
    for &p in pars {
        par(p);
        let det = || json!({"rep": R::NAME, "lhs": a.arcs_json(), "rhs": b.arcs_json(), "worker_threads": p});
        let ab = expect(guarded(|| da.union(db)), &want, "union(lhs, rhs)", &det, ctx);
        let ba = expect(guarded(|| db.union(da)), &want, "union(rhs, lhs)", &det, ctx);
        if let (Some(x), Some(y)) = (ab, ba) {
            if x != y {
                ctx.fail(format!("{}::union is not commutative under ==", R::NAME), det());
            }
        }
    }
    if *da != ca || *db != cb {
        ctx.fail(format!("{}: operand changed by union()", R::NAME), json!({"lhs": a.arcs_json(), "rhs": b.arcs_json()}));
    }
}

fn c11_union_space<R: OpRep>(n1: usize, n2: usize, maxpar: usize) -> Space {
    let (c1, c2) = (dcount(n1), dcount(n2));
    threaded::<R>(Space::new("c11.union", vec![R::ID, n1 as u64, n2 as u64, maxpar as u64], c1 * c2, format!("union of every ordered pair of digraphs of orders ({n1}, {n2}) in {} (both directions, idempotence), worker threads 1..={maxpar}", R::NAME), move |idx, ctx| {
        let a = Abs::from_mask(n1, idx % c1);
        let b = Abs::from_mask(n2, idx / c1);
        let (da, db): (R, R) = (mk::<R>(&a), mk::<R>(&b));
        let pars: Vec<usize> = if R::THREADED { if maxpar == 1 { vec![2] } else { (1..=maxpar).collect() } } else { vec![1] };
        union_checks(&a, &b, &da, &db, &pars, ctx);
        if idx / c1 == 0 {
            // idempotence, once per lhs
            let det = || json!({"rep": R::NAME, "digraph": a.arcs_json()});
            let _ = expect(guarded(|| da.union(&da)), &a, "union(d, d)", &det, ctx);
        }
        if n1 != n2 && !a.a.is_empty() && !b.a.is_empty() {
            ctx.nontrivial();
        } else if n1 == n2 && a.a != b.a && !a.a.is_subset(&b.a) && !b.a.is_subset(&a.a) {
            ctx.nontrivial();
        }
        ctx.sample(|| json!({"rep": R::NAME, "lhs": a.arcs_json(), "rhs": b.arcs_json(), "par": pars}));
    }))
}

fn c11_assoc_space<R: OpRep>(max_arcs: usize) -> Space {
    // all triples of digraphs with orders in {1,2,3} and at most `max_arcs` arcs
    // (all 1 + 4 + 64 = 69 digraphs when max_arcs ≥ 6; 27 when max_arcs = 2)
    let mut pool: Vec<Abs> = Vec::new();
    for n in 1..=3 {
        for m in 0..dcount(n) {
            if m.count_ones() as usize <= max_arcs {
                pool.push(Abs::from_mask(n, m));
            }
        }
    }
    let k = pool.len() as u64;
    let pool = Arc::new(pool);
    threaded::<R>(Space::new("c11.assoc", vec![R::ID, max_arcs as u64], k * k * k, format!("associativity of union over every triple of digraphs of orders 1..=3 with ≤ {max_arcs} arcs ({} digraphs) in {}", pool.len(), R::NAME), move |idx, ctx| {
        let (a, b, c) = (&pool[(idx % k) as usize], &pool[(idx / k % k) as usize], &pool[(idx / k / k) as usize]);
        par(1 + (idx % 3) as usize);
        let (da, db, dc): (R, R, R) = (mk::<R>(a), mk::<R>(b), mk::<R>(c));
        ctx.execs_n(2);
        let det = || json!({"rep": R::NAME, "a": a.arcs_json(), "b": b.arcs_json(), "c": c.arcs_json()});
        match guarded(|| (da.union(&db).union(&dc), da.union(&db.union(&dc)))) {
            Err(e) => ctx.fail(format!("{}::union panicked: {e}", R::NAME), det()),
            Ok((l, r)) => {
                if l != r {
                    ctx.fail(format!("{}::union is not associative under ==", R::NAME), det());
                } else if observe(&l).map_or(true, |o| !same::<R>(&o, &a.union(b).union(c))) {
                    ctx.fail(format!("{}::union of three digraphs differs from the set union", R::NAME), det());
                }
            }
        }
        if a.n() != b.n() || b.n() != c.n() {
            ctx.nontrivial();
        }
        ctx.sample(|| det());
    }))
}

fn c11_sparse_space(pool: &'static [usize], k: usize, maxpar: usize) -> Space {
    let sp = Arc::new(SparseSpace::new(pool, k));
    Space::new("c11.sparse", vec![pool.len() as u64, k as u64, pool.iter().map(|&x| x as u64).sum(), maxpar as u64], sp.total, format!("AdjacencyMap complement / converse / filter_vertices (every predicate) on every vertex set V ⊆ {pool:?}, |V| ≤ {k}, every arc set (non-contiguous ids)"), move |idx, ctx| {
        let abs = sp.get(idx);
        let d = mk_am(&abs);
        if observe(&d).map_or(true, |o| !same::<AM>(&o, &abs)) {
            ctx.fail("non-contiguous AdjacencyMap not observed as built", json!({"digraph": abs.arcs_json()}));
            return;
        }
        unary_checks(&abs, &d, &[1, maxpar], ctx);
        let vs: Vec<usize> = abs.v.iter().copied().collect();
        let before = d.clone();
        for m in 0..(1u64 << vs.len()) {
            let keep: Vec<usize> = (0..vs.len()).filter(|i| m >> i & 1 == 1).map(|i| vs[i]).collect();
            let det = || json!({"rep": "AdjacencyMap", "digraph": abs.arcs_json(), "kept_vertices": keep});
            let want = abs.induced(|x| keep.contains(&x));
            let _ = expect(guarded(|| d.filter_vertices(|x| keep.contains(&x))), &want, "filter_vertices(p)", &det, ctx);
        }
        if d != before {
            ctx.fail("AdjacencyMap: operand changed by filter_vertices()", json!({"digraph": abs.arcs_json()}));
        }
        if !abs.is_contiguous() && !abs.a.is_empty() {
            ctx.nontrivial();
        }
        ctx.sample(|| json!({"rep": "AdjacencyMap", "digraph": abs.arcs_json(), "ops": "complement, converse, filter_vertices(all predicates)"}));
    })
}

fn c11_sparse_union_space(pool: &'static [usize], k: usize, maxpar: usize) -> Space {
    let sp = Arc::new(SparseSpace::new(pool, k));
    let t = sp.total;
    Space::new("c11.sparse_union", vec![pool.len() as u64, k as u64, pool.iter().map(|&x| x as u64).sum(), maxpar as u64], t * t, format!("AdjacencyMap union of every ordered pair of digraphs over vertex sets ⊆ {pool:?} (|V| ≤ {k}; disjoint, overlapping, equal key sets), worker threads 1..={maxpar}"), move |idx, ctx| {
        let a = sp.get(idx % t);
        let b = sp.get(idx / t);
        let (da, db) = (mk_am(&a), mk_am(&b));
        let pars: Vec<usize> = (1..=maxpar).collect();
        union_checks(&a, &b, &da, &db, &pars, ctx);
        let inter = a.v.intersection(&b.v).count();
        if inter > 0 && inter < a.v.len().max(b.v.len()) {
            ctx.nontrivial();
            ctx.tag("partially_overlapping_key_sets");
        }
        ctx.sample(|| json!({"rep": "AdjacencyMap", "lhs": a.arcs_json(), "rhs": b.arcs_json(), "par": pars}));
    })
    .procs()
}

fn c11_filter_contig_space(n: usize) -> Space {
    Space::new("c11.filter", vec![n as u64], dcount(n), format!("AdjacencyMap::filter_vertices with every predicate (2^{n} subsets, non-empty results) on every digraph on 0..{n}"), move |idx, ctx| {
        let abs = Abs::from_mask(n, idx);
        let d = mk::<AM>(&abs);
        for m in 0..(1u64 << n) {
            let det = || json!({"rep": "AdjacencyMap", "digraph": abs.arcs_json(), "kept_vertices": subset_vec(m, n)});
            let want = abs.induced(|x| m >> x & 1 == 1);
            let _ = expect(guarded(|| d.filter_vertices(|x| m >> x & 1 == 1)), &want, "filter_vertices(p)", &det, ctx);
        }
        if abs.a.len() >= 2 {
            ctx.nontrivial();
        }
        ctx.sample(|| json!({"rep": "AdjacencyMap", "digraph": abs.arcs_json(), "predicates": "every subset"}));
    })
}

fn c11_wconverse_space(n: usize) -> Space {
    static A12: [i128; 2] = [1, 2];
    let total = pow(3, n * (n - 1));
    Space::new("c11.wconverse", vec![n as u64], total, format!("AdjacencyListWeighted converse (weights carried over) on every digraph on 0..{n} with weights {{1,2}}"), move |idx, ctx| {
        let abs = Abs::from_code(n, idx, &A12);
        let d = mk::<WU>(&abs);
        let det = || json!({"rep": WU::NAME, "digraph": abs.arcs_json()});
        let before = d.clone();
        if let Some(c) = expect(guarded(|| d.converse()), &abs.converse(), "converse()", &det, ctx) {
            let _ = expect(guarded(|| c.converse()), &abs, "converse().converse()", &det, ctx);
        }
        if d != before {
            ctx.fail("operand changed by converse()", det());
        }
        let di = mk::<WI>(&abs);
        let _ = expect(guarded(|| di.converse()), &abs.converse(), "converse()", &det, ctx);
        if abs.w.values().any(|&w| w == 2) && abs.w.values().any(|&w| w == 1) {
            ctx.nontrivial();
        }
        ctx.sample(|| det());
    })
}

pub fn c11(tier: &str, seed: u64) -> Check {
    let thorough = tier == "thorough";
    let mut spaces = Vec::new();
    for n in 1..=4 {
        spaces.push(c11_unary_space::<AL>(n, 5));
        spaces.push(c11_unary_space::<AM>(n, 2));
        spaces.push(c11_unary_space::<AX>(n, 1));
        spaces.push(c11_unary_space::<EL>(n, 1));
    }
    if thorough {
        spaces.push(c11_unary_space::<AL>(5, 3));
        spaces.push(c11_unary_space::<AM>(5, 1));
        spaces.push(c11_unary_space::<AX>(5, 1));
        spaces.push(c11_unary_space::<EL>(5, 1));
    }
    for (a, b) in [(1, 1), (1, 2), (2, 2), (1, 3), (2, 3), (3, 3), (3, 1), (3, 2), (2, 1), (4, 1), (4, 2), (1, 4), (2, 4)] {
        spaces.push(c11_union_space::<AL>(a, b, 4));
        spaces.push(c11_union_space::<AM>(a, b, 5));
        spaces.push(c11_union_space::<AX>(a, b, 1));
        spaces.push(c11_union_space::<EL>(a, b, 1));
    }
    if thorough {
        for (a, b) in [(4, 3), (3, 4)] {
            spaces.push(c11_union_space::<AL>(a, b, 3));
            spaces.push(c11_union_space::<AM>(a, b, 4));
            spaces.push(c11_union_space::<AX>(a, b, 1));
            spaces.push(c11_union_space::<EL>(a, b, 1));
        }
        spaces.push(c11_union_space::<AX>(4, 4, 1));
        spaces.push(c11_union_space::<EL>(4, 4, 1));
        // (4,4) on the threaded representations: 16.7 M pairs x 2 directions of thread-spawning calls;
        // one worker count each (the par sweep is done on the smaller spaces)
        spaces.push(c11_union_space::<AL>(4, 4, 1));
        spaces.push(c11_union_space::<AM>(4, 4, 1));
    }
    let aa = if thorough { 6 } else { 2 };
    spaces.push(c11_assoc_space::<AL>(aa));
    spaces.push(c11_assoc_space::<AM>(aa));
    spaces.push(c11_assoc_space::<AX>(6));
    spaces.push(c11_assoc_space::<EL>(6));
    spaces.push(c11_sparse_space(&[0, 1, 4, 9], 3, 3));
    spaces.push(c11_sparse_space(&[2, 5, 6], 3, 2));
    spaces.push(c11_sparse_union_space(&[0, 1, 4], 3, 7));
    if thorough {
        spaces.push(c11_sparse_space(&[0, 2, 3, 7, 9], 4, 3));
        spaces.push(c11_sparse_union_space(&[1, 3, 8, 9], 3, 8));
    }
    for n in 1..=4 {
        spaces.push(c11_filter_contig_space(n));
    }
    for n in 1..=3 {
        spaces.push(c11_wconverse_space(n));
    }
    spaces.push(crate::props::large::c11_big(thorough));
    let report = super::report(
        "C11",
        tier,
        seed,
        "bounded-exhaustive: complement and converse (and their involutions) on every digraph on 0..n (n ≤ 4; 5 thorough) per implementing representation; union over every ordered pair of digraphs of orders (a, b) with a·b small (all pairs up to (3,3), (4,≤2); (4,3)/(3,4)/(4,4) thorough), both directions, idempotence, associativity over every triple of orders 1..3; AdjacencyMap over every vertex set of small id pools (non-contiguous, disjoint / overlapping / equal key sets) incl. filter_vertices with every predicate; weighted converse with weights {1,2}; the threaded AdjacencyList / AdjacencyMap operators for every worker count 1..=4..8. Results are read back through vertices()/arcs() (validity asserted) and compared with set definitions; operands compared with clones. Non-trivial: per space (operands of different order, partially overlapping key sets, non-contiguous ids, mixed weights).",
        &["worker count is set through the cfg(graaf_verif) seam in front of available_parallelism (bound to real CPU affinity by C17)", "empty filter results (order 0) are compared structurally only"],
        json!({"max_order_unary": if thorough {5} else {4}, "sparse_pools": [[0,1,4,9],[2,5,6],[0,1,4]]}),
    );
    Check { spaces, report, post: None }
}

// ------------------------------------------------------------------ C12

pub fn unary_predicates<R: Rep>(abs: &Abs, d: &R, ctx: &mut Ctx, extra: &dyn Fn() -> Value) {
    let rn = R::NAME;
    let det = || {
        let mut v = json!({"rep": rn, "digraph": abs.arcs_json()});
        if let (Some(o), Some(e)) = (v.as_object_mut(), extra().as_object()) {
            for (k, x) in e {
                o.insert(k.clone(), x.clone());
            }
        }
        v
    };
    macro_rules! p {
        ($name:expr, $real:expr, $want:expr) => {{
            ctx.exec();
            match guarded(|| $real) {
                Ok(got) => {
                    let want = $want;
                    if got != want {
                        ctx.fail(format!("{rn}::{} = {got}, definition gives {want}", $name), det());
                    }
                }
                Err(e) => ctx.fail(format!("{rn}::{} panicked: {e}", $name), det()),
            }
        }};
    }
    p!("is_complete()", d.is_complete(), abs.is_complete());
    p!("is_semicomplete()", d.is_semicomplete(), abs.is_semicomplete());
    p!("is_tournament()", d.is_tournament(), abs.is_tournament());
    p!("is_regular()", d.is_regular(), abs.is_regular());
    p!("is_balanced()", d.is_balanced(), abs.is_balanced());
    p!("is_symmetric()", d.is_symmetric(), abs.is_symmetric());
    p!("is_oriented()", d.is_oriented(), abs.is_oriented());
    p!("is_simple()", d.is_simple(), true);
}

fn c12_unary_space<R: Rep>(n: usize, maxpar: usize) -> Space {
    let sp = Space::new("c12.unary", vec![R::ID, n as u64, maxpar as u64], dcount(n), format!("the eight unary predicates on every digraph on 0..{n} in {}, worker threads 1..={maxpar}", R::NAME), move |idx, ctx| {
        let abs = Abs::from_mask(n, idx);
        let d: R = mk::<R>(&abs);
        for p in 1..=maxpar {
            par(p);
            unary_predicates(&abs, &d, ctx, &|| json!({"worker_threads": p}));
        }
        if abs.is_semicomplete() != abs.is_tournament() || abs.is_balanced() != abs.is_regular() {
            ctx.nontrivial();
        }
        ctx.sample(|| json!({"rep": R::NAME, "digraph": abs.arcs_json(), "predicates": 8}));
    });
    if maxpar > 1 { sp.procs() } else { sp }
}

fn c12_sparse_space(pool: &'static [usize], k: usize) -> Space {
    let sp = Arc::new(SparseSpace::new(pool, k));
    Space::new("c12.sparse", vec![pool.len() as u64, k as u64, pool.iter().map(|&x| x as u64).sum()], sp.total, format!("the eight unary predicates on AdjacencyMap over every vertex set V ⊆ {pool:?}, |V| ≤ {k}, every arc set (non-contiguous ids)"), move |idx, ctx| {
        let abs = sp.get(idx);
        let d = mk_am(&abs);
        unary_predicates(&abs, &d, ctx, &|| json!({}));
        if !abs.is_contiguous() {
            ctx.nontrivial();
        }
        ctx.sample(|| json!({"rep": "AdjacencyMap", "digraph": abs.arcs_json(), "predicates": 8}));
    })
}

fn binary_checks<R: Rep>(h: &Abs, d: &Abs, dh: &R, dd: &R, ctx: &mut Ctx) {
    let det = || json!({"rep": R::NAME, "H": h.arcs_json(), "D": d.arcs_json()});
    let sub = h.is_subdigraph_of(d);
    let sup = d.is_subdigraph_of(h);
    let span = sub && h.v == d.v;
    macro_rules! p {
        ($name:expr, $real:expr, $want:expr) => {{
            ctx.exec();
            match guarded(|| $real) {
                Ok(got) => {
                    if got != $want {
                        ctx.fail(format!("{}: H.{}(D) = {got}, definition gives {}", R::NAME, $name, $want), det());
                    }
                }
                Err(e) => ctx.fail(format!("{}: H.{}(D) panicked: {e}", R::NAME, $name), det()),
            }
        }};
    }
    p!("is_subdigraph", dh.is_subdigraph(dd), sub);
    p!("is_superdigraph", dh.is_superdigraph(dd), sup);
    p!("is_spanning_subdigraph", dh.is_spanning_subdigraph(dd), span);
}

fn c12_binary_space<R: Rep>(n1: usize, n2: usize) -> Space {
    let (c1, c2) = (dcount(n1), dcount(n2));
    Space::new("c12.binary", vec![R::ID, n1 as u64, n2 as u64], c1 * c2, format!("is_subdigraph / is_superdigraph / is_spanning_subdigraph over every ordered pair of digraphs of orders ({n1}, {n2}) in {}", R::NAME), move |idx, ctx| {
        let h = Abs::from_mask(n1, idx % c1);
        let d = Abs::from_mask(n2, idx / c1);
        let (dh, dd): (R, R) = (mk::<R>(&h), mk::<R>(&d));
        binary_checks(&h, &d, &dh, &dd, ctx);
        if h.a.is_subset(&d.a) != (h.is_subdigraph_of(&d)) || (n1 == n2 && h.is_subdigraph_of(&d) && h.a != d.a) {
            ctx.nontrivial();
        }
        ctx.sample(|| json!({"rep": R::NAME, "H": h.arcs_json(), "D": d.arcs_json()}));
    })
}

fn c12_sparse_binary_space(pool: &'static [usize], k: usize) -> Space {
    let sp = Arc::new(SparseSpace::new(pool, k));
    let t = sp.total;
    Space::new("c12.sparse_binary", vec![pool.len() as u64, k as u64, pool.iter().map(|&x| x as u64).sum()], t * t, format!("the three binary relations over every ordered pair of AdjacencyMap digraphs on vertex sets ⊆ {pool:?}"), move |idx, ctx| {
        let h = sp.get(idx % t);
        let d = sp.get(idx / t);
        let (dh, dd) = (mk_am(&h), mk_am(&d));
        binary_checks(&h, &d, &dh, &dd, ctx);
        if h.v != d.v && h.v.is_subset(&d.v) {
            ctx.nontrivial();
        }
        ctx.sample(|| json!({"rep": "AdjacencyMap", "H": h.arcs_json(), "D": d.arcs_json()}));
    })
}

/// Large structured near-misses: the size shortcut passes and exactly one
/// unordered pair decides, at every position (so in every thread chunk).
pub fn near_complete(n: usize, kind: usize, a: usize, b: usize) -> (String, Abs) {
    let pairs = Abs::pairs(n);
    match kind {
        // complete minus both arcs of {a,b}: not semicomplete although size ≥ n(n-1)/2
        0 => (format!("complete minus {a}<->{b}"), Abs::from_arcs(n, pairs.into_iter().filter(|&(u, v)| !((u == a && v == b) || (u == b && v == a))))),
        // complete minus one arc: semicomplete, not complete, not tournament
        1 => (format!("complete minus {a}->{b}"), Abs::from_arcs(n, pairs.into_iter().filter(|&(u, v)| !(u == a && v == b)))),
        // transitive tournament with {a,b} reversed: still a tournament
        2 => (format!("transitive tournament with {a}->{b} reversed"), Abs::from_arcs(n, pairs.into_iter().filter(|&(u, v)| if (u, v) == (a, b) || (u, v) == (b, a) { u > v } else { u < v }))),
        // degree-preserving swap on the transitive tournament: pairs {a,b} and {c,d} doubled, pairs
        // {a,c} and {b,d} emptied (c, d the two smallest other vertices): size n(n-1)/2 and every
        // vertex still incident to n-1 arcs, yet neither a tournament nor semicomplete nor oriented
        4 => {
            let mut others = (0..n).filter(|&x| x != a && x != b);
            let (c, d) = (others.next().unwrap_or(0), others.next().unwrap_or(0));
            let dbl = |u: usize, v: usize| (u.min(v), u.max(v)) == (a.min(b), a.max(b)) || (u.min(v), u.max(v)) == (c.min(d), c.max(d));
            let emp = |u: usize, v: usize| (u.min(v), u.max(v)) == (a.min(c), a.max(c)) || (u.min(v), u.max(v)) == (b.min(d), b.max(d));
            (format!("transitive tournament with {{{a},{b}}} and {{{c},{d}}} doubled, {{{a},{c}}} and {{{b},{d}}} emptied"), Abs::from_arcs(n, pairs.into_iter().filter(|&(u, v)| if emp(u, v) { false } else if dbl(u, v) { true } else { u < v })))
        }
        // symmetric circulant with connection set ±1..±(n-1)/4 rotated by a: n(n-1)/2 arcs for
        // n = 4k+1, every vertex incident to n-1 arcs, fully symmetric
        5 => {
            let k = (n - 1) / 4;
            (format!("symmetric circulant ±1..±{k}"), Abs::from_arcs(n, pairs.into_iter().filter(|&(u, v)| { let dlt = (v + n - u) % n; dlt <= k || n - dlt <= k })))
        }
        // transitive tournament with pair {a,b} removed and pair {c,d} doubled: size n(n-1)/2, not a tournament, not semicomplete
        _ => {
            let (c, d) = if a == 0 && b == 1 { (n - 2, n - 1) } else { (0, 1) };
            (format!("transitive tournament minus {a}->{b} plus {d}->{c}"), Abs::from_arcs(n, pairs.into_iter().filter(|&(u, v)| if (u, v) == (a, b) { false } else if (u, v) == (d, c) { true } else { u < v })))
        }
    }
}

fn c12_family_space<R: Rep>(orders: &'static [usize], maxpar: usize) -> Space {
    let mut cases = Vec::new();
    for &n in orders {
        for a in 0..n {
            for b in (a + 1)..n {
                for kind in 0..4 {
                    cases.push((n, kind, a, b));
                }
                if n >= 4 {
                    cases.push((n, 4, a, b));
                }
                if (a, b) == (0, 1) && n >= 5 && n % 4 == 1 {
                    cases.push((n, 5, a, b));
                }
            }
        }
    }
    let cases = Arc::new(cases);
    let sp = Space::new("c12.family", vec![R::ID, orders.iter().map(|&x| x as u64).sum(), maxpar as u64], cases.len() as u64, format!("near-miss families at orders {orders:?} in {}: for EVERY unordered pair {{a,b}}: complete minus both arcs, complete minus one arc, transitive tournament with the pair reversed, transitive tournament with the pair removed and another doubled, the degree-preserving swap (two pairs doubled, two emptied: size and every vertex's arc count as in a tournament), and the symmetric circulant for n = 4k+1; worker threads 1..={maxpar}", R::NAME), move |idx, ctx| {
        let (n, kind, a, b) = cases[idx as usize];
        let (name, abs) = near_complete(n, kind, a, b);
        let d: R = mk::<R>(&abs);
        for p in 1..=maxpar {
            par(p);
            unary_predicates(&abs, &d, ctx, &|| json!({"family": name, "worker_threads": p}));
        }
        ctx.nontrivial();
        ctx.sample(|| json!({"rep": R::NAME, "order": n, "family": name, "par": format!("1..={maxpar}")}));
    });
    if maxpar > 1 { sp.procs() } else { sp }
}

pub fn c12(tier: &str, seed: u64) -> Check {
    let thorough = tier == "thorough";
    let mut spaces = Vec::new();
    for n in 1..=4 {
        spaces.push(c12_unary_space::<AL>(n, 6));
        spaces.push(c12_unary_space::<AM>(n, 1));
        spaces.push(c12_unary_space::<AX>(n, 1));
        spaces.push(c12_unary_space::<EL>(n, 1));
        spaces.push(c12_unary_space::<WU>(n, 1));
    }
    if thorough {
        spaces.push(c12_unary_space::<AL>(5, 3));
        spaces.push(c12_unary_space::<AM>(5, 1));
        spaces.push(c12_unary_space::<AX>(5, 1));
        spaces.push(c12_unary_space::<EL>(5, 1));
        spaces.push(c12_unary_space::<WU>(5, 1));
    }
    spaces.push(c12_sparse_space(&[0, 1, 4, 9], 3));
    spaces.push(c12_sparse_space(&[2, 5, 6], 3));
    spaces.push(c12_sparse_space(&[0, 3, 4, 7, 8], 4));
    static FQ: [usize; 4] = [5, 9, 17, 33];
    static FT: [usize; 6] = [5, 6, 9, 17, 33, 40];
    static FS: [usize; 3] = [5, 9, 12];
    spaces.push(c12_family_space::<AL>(if thorough { &FT } else { &FQ }, 16));
    spaces.push(c12_family_space::<AM>(&FS, 1));
    spaces.push(c12_family_space::<AX>(&FS, 1));
    spaces.push(c12_family_space::<EL>(&FS, 1));
    spaces.push(c12_family_space::<WU>(&FS, 1));
    for (a, b) in [(1, 1), (1, 2), (2, 1), (2, 2), (1, 3), (3, 1), (2, 3), (3, 2), (3, 3), (4, 1), (1, 4), (4, 2), (2, 4)] {
        spaces.push(c12_binary_space::<AL>(a, b));
        spaces.push(c12_binary_space::<AM>(a, b));
        spaces.push(c12_binary_space::<AX>(a, b));
        spaces.push(c12_binary_space::<EL>(a, b));
        spaces.push(c12_binary_space::<WU>(a, b));
    }
    if thorough {
        for (a, b) in [(4, 3), (3, 4), (4, 4)] {
            spaces.push(c12_binary_space::<AL>(a, b));
            spaces.push(c12_binary_space::<AX>(a, b));
            spaces.push(c12_binary_space::<EL>(a, b));
        }
        spaces.push(c12_binary_space::<AM>(4, 3));
        spaces.push(c12_binary_space::<AM>(3, 4));
    }
    spaces.push(c12_sparse_binary_space(&[0, 1, 4], 3));
    spaces.push(crate::props::large::c12_big(thorough));
    let report = super::report(
        "C12",
        tier,
        seed,
        "bounded-exhaustive: the eight unary predicates on every digraph on 0..n (n ≤ 4; 5 thorough) × 5 representations (AdjacencyList for every worker count 1..=6), on AdjacencyMap over every vertex set of three small id pools (non-contiguous), and on near-miss families at orders 5..33(40) where the size shortcut passes and one pair decides, for EVERY pair position × worker counts 1..=16; the three binary relations over every ordered pair of digraphs of orders up to (3,3), (4,≤2) ((4,3),(3,4),(4,4) thorough) and over AdjacencyMap sparse pairs. Oracle: the set definitions. Interleavings of AdjacencyList::is_semicomplete's workers are explored by the schedule engine (see coverage.schedules). Non-trivial: semicomplete≠tournament or balanced≠regular (unary), family cases, pairs where vertex-set inclusion decides.",
        &["shuttle explores the Relaxed flag as SeqCst; the flag is monotone (true→false only), workers only read it to stop early and the result is loaded after scope() joined every worker", "order-0 digraphs (only obtainable through filter_vertices) are outside"],
        json!({"max_order": if thorough {5} else {4}, "family_orders": if thorough { json!(FT) } else { json!(FQ) }}),
    );
    let tier2 = tier.to_string();
    Check { spaces, report, post: Some(Box::new(move |ctx| crate::props::conf::run_sched("C12", &tier2, ctx))) }
}
