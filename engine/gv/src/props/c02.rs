//! C02 — every query returns its textbook definition over the arc set.

use crate::core::{guarded, Ctx, Space};
use crate::refm::Abs;
use crate::reps::*;
use crate::spacesx::*;
use crate::Check;
use graaf::*;
use serde_json::json;
use std::collections::BTreeSet;
use std::sync::Arc;

#[macro_export]
macro_rules! chk {
    ($ctx:expr, $abs:expr, $name:expr, $real:expr, $want:expr) => {{
        $ctx.exec();
        match $crate::core::guarded(|| $real) {
            Ok(got) => {
                let want = $want;
                if got != want {
                    $ctx.fail(format!("{} returned {:?}, definition gives {:?}", $name, got, want), serde_json::json!({"digraph": $abs.arcs_json()}));
                }
            }
            Err(e) => $ctx.fail(format!("{} panicked: {}", $name, e), serde_json::json!({"digraph": $abs.arcs_json()})),
        }
    }};
}

/// Checks every query of C02 on the real digraph `d` built from `abs`.
/// `outside`: ids not in V used for the total queries.
pub fn check_queries<R: Rep>(d: &R, abs: &Abs, outside: &[usize], walk_len: usize, ctx: &mut Ctx) {
    let rn = R::NAME;
    let before = d.clone();
    match observe(d) {
        Ok(o) => {
            if !same::<R>(&o, abs) {
                ctx.fail(format!("{rn}: vertices()/arcs() observe {:?}, built from {:?}", o.arcs_json(), abs.arcs_json()), json!({"digraph": abs.arcs_json()}));
                return;
            }
        }
        Err(e) => {
            ctx.fail(format!("{rn}: {e}"), json!({"digraph": abs.arcs_json()}));
            return;
        }
    }
    ctx.exec();
    let vs: Vec<usize> = abs.v.iter().copied().collect();
    let mut ids = vs.clone();
    ids.extend_from_slice(outside);

    chk!(ctx, abs, format!("{rn}::order()"), d.order(), abs.n());
    chk!(ctx, abs, format!("{rn}::size()"), d.size(), abs.a.len());

    for &u in &ids {
        for &v in &ids {
            chk!(ctx, abs, format!("{rn}::has_arc({u},{v})"), d.has_arc(u, v), abs.has(u, v));
            chk!(ctx, abs, format!("{rn}::has_edge({u},{v})"), d.has_edge(u, v), abs.has(u, v) && abs.has(v, u));
            if R::WEIGHTED {
                let want = if abs.has(u, v) { Some(abs.weight(u, v)) } else { None };
                chk!(ctx, abs, format!("{rn}::arc_weight({u},{v})"), d.arc_weight_of(u, v).unwrap(), want);
            }
        }
    }

    // walks: every sequence over V ∪ {first outside id} up to walk_len
    let mut walk_alpha = vs.clone();
    if let Some(&o) = outside.first() {
        walk_alpha.push(o);
    }
    for walk in sequences(&walk_alpha, walk_len) {
        let want = walk.len() >= 2 && walk.windows(2).all(|w| abs.has(w[0], w[1]));
        chk!(ctx, abs, format!("{rn}::has_walk({walk:?})"), d.has_walk(&walk), want);
    }

    let indeg: Vec<usize> = vs.iter().map(|&v| abs.indeg(v)).collect();
    let outdeg: Vec<usize> = vs.iter().map(|&v| abs.outdeg(v)).collect();
    for (i, &u) in vs.iter().enumerate() {
        chk!(ctx, abs, format!("{rn}::out_neighbors({u})"), d.out_neighbors(u).collect::<Vec<_>>(), abs.out(u));
        chk!(ctx, abs, format!("{rn}::in_neighbors({u})"), d.in_neighbors(u).collect::<Vec<_>>(), abs.inn(u));
        if R::WEIGHTED {
            let want: Vec<(usize, i128)> = abs.out(u).into_iter().map(|v| (v, abs.weight(u, v))).collect();
            chk!(ctx, abs, format!("{rn}::out_neighbors_weighted({u})"), d.out_weighted(u).unwrap(), want);
        }
        chk!(ctx, abs, format!("{rn}::indegree({u})"), d.indegree(u), indeg[i]);
        chk!(ctx, abs, format!("{rn}::outdegree({u})"), d.outdegree(u), outdeg[i]);
        chk!(ctx, abs, format!("{rn}::degree({u})"), d.degree(u), indeg[i] + outdeg[i]);
        chk!(ctx, abs, format!("{rn}::is_sink({u})"), d.is_sink(u), outdeg[i] == 0);
        chk!(ctx, abs, format!("{rn}::is_source({u})"), d.is_source(u), indeg[i] == 0);
        chk!(ctx, abs, format!("{rn}::is_isolated({u})"), d.is_isolated(u), indeg[i] == 0 && outdeg[i] == 0);
        chk!(ctx, abs, format!("{rn}::is_pendant({u})"), d.is_pendant(u), indeg[i] + outdeg[i] == 1);
    }
    chk!(ctx, abs, format!("{rn}::sinks()"), d.sinks().collect::<Vec<_>>(), vs.iter().copied().filter(|&u| abs.outdeg(u) == 0).collect::<Vec<_>>());
    chk!(ctx, abs, format!("{rn}::sources()"), d.sources().collect::<Vec<_>>(), vs.iter().copied().filter(|&u| abs.indeg(u) == 0).collect::<Vec<_>>());
    chk!(ctx, abs, format!("{rn}::degree_sequence()"), d.degree_sequence().collect::<Vec<_>>(), (0..vs.len()).map(|i| indeg[i] + outdeg[i]).collect::<Vec<_>>());
    chk!(ctx, abs, format!("{rn}::indegree_sequence()"), d.indegree_sequence().collect::<Vec<_>>(), indeg.clone());
    chk!(ctx, abs, format!("{rn}::outdegree_sequence()"), d.outdegree_sequence().collect::<Vec<_>>(), outdeg.clone());
    chk!(ctx, abs, format!("{rn}::semidegree_sequence()"), d.semidegree_sequence().collect::<Vec<_>>(), (0..vs.len()).map(|i| (indeg[i], outdeg[i])).collect::<Vec<_>>());
    chk!(ctx, abs, format!("{rn}::max_indegree()"), d.max_indegree(), indeg.iter().copied().max().unwrap_or(0));
    chk!(ctx, abs, format!("{rn}::min_indegree()"), d.min_indegree(), indeg.iter().copied().min().unwrap_or(0));
    chk!(ctx, abs, format!("{rn}::max_outdegree()"), d.max_outdegree(), outdeg.iter().copied().max().unwrap_or(0));
    chk!(ctx, abs, format!("{rn}::min_outdegree()"), d.min_outdegree(), outdeg.iter().copied().min().unwrap_or(0));
    chk!(ctx, abs, format!("{rn}::max_degree()"), d.max_degree(), (0..vs.len()).map(|i| indeg[i] + outdeg[i]).max().unwrap_or(0));
    chk!(ctx, abs, format!("{rn}::min_degree()"), d.min_degree(), (0..vs.len()).map(|i| indeg[i] + outdeg[i]).min().unwrap_or(0));

    // queries never change the digraph
    if *d != before {
        ctx.fail(format!("{rn}: digraph differs from the clone taken before the queries"), json!({"digraph": abs.arcs_json()}));
    }
    match observe(d) {
        Ok(o) if same::<R>(&o, abs) => {}
        _ => ctx.fail(format!("{rn}: digraph observed differently after the queries"), json!({"digraph": abs.arcs_json()})),
    }
}

fn nontrivial(abs: &Abs) -> bool {
    !abs.a.is_empty() && abs.v.iter().any(|&v| abs.indeg(v) != abs.outdeg(v))
}

fn dense(abs: &Abs) -> bool {
    let n = abs.n();
    abs.a.len() > n * n.saturating_sub(1) / 2
}

fn space_contig<R: Rep>(n: usize, walk_len: usize) -> Space {
    let sp = Space::new("c02.contig", vec![R::ID, n as u64, walk_len as u64], dcount(n), format!("every digraph on 0..{n} in {}, every query, ids in V ∪ {{n, n+1}}, walks of length ≤ {walk_len}", R::NAME), move |idx, ctx| {
        let abs = Abs::from_mask(n, idx);
        // the worker-count seam matters for AdjacencyList::degree_sequence
        par(1 + (idx % 6) as usize);
        let d: R = match guarded(|| mk::<R>(&abs)) {
            Ok(d) => d,
            Err(e) => {
                ctx.fail(format!("{}: building through empty()+add_arc panicked: {e}", R::NAME), json!({"digraph": abs.arcs_json()}));
                return;
            }
        };
        check_queries(&d, &abs, &[n, n + 1], walk_len, ctx);
        if nontrivial(&abs) {
            ctx.nontrivial();
        }
        if dense(&abs) {
            ctx.tag("dense_digraphs");
        }
        ctx.sample(|| json!({"rep": R::NAME, "digraph": abs.arcs_json(), "queries": "all of C02"}));
    });
    if R::ID == 0 { sp.procs() } else { sp }
}

fn space_sparse(pool: &'static [usize], k: usize, walk_len: usize) -> Space {
    let sp = Arc::new(SparseSpace::new(pool, k));
    let total = sp.total;
    let outside: Vec<usize> = {
        let mx = pool.iter().copied().max().unwrap_or(0);
        vec![mx + 1, mx + 2]
    };
    Space::new("c02.sparse", vec![pool.len() as u64, k as u64, walk_len as u64, pool.iter().map(|&x| x as u64).sum()], total, format!("AdjacencyMap with every vertex set V ⊆ {pool:?}, |V| ≤ {k}, every arc set on V (non-contiguous ids)"), move |idx, ctx| {
        let abs = sp.get(idx);
        let d = match guarded(|| mk_am(&abs)) {
            Ok(d) => d,
            Err(e) => {
                ctx.fail(format!("AdjacencyMap: building a non-contiguous digraph through add_arc/remove_arc/filter_vertices panicked: {e}"), json!({"digraph": abs.arcs_json()}));
                return;
            }
        };
        // ids outside V: unused pool ids (inside the id range!) and two beyond it
        let mut out: Vec<usize> = pool.iter().copied().filter(|x| !abs.v.contains(x)).take(1).collect();
        out.extend_from_slice(&outside);
        check_queries(&d, &abs, &out, walk_len, ctx);
        if nontrivial(&abs) && !abs.is_contiguous() {
            ctx.nontrivial();
        }
        if !abs.is_contiguous() {
            ctx.tag("noncontiguous_digraphs");
        }
        ctx.sample(|| json!({"rep": "AdjacencyMap", "digraph": abs.arcs_json(), "queries": "all of C02"}));
    })
}

/// Structured families for orders where 2^(n(n-1)) is out of reach: the
/// bit matrix crosses 64-bit words, AdjacencyList::degree_sequence splits rows
/// over `par` workers.
pub fn family(n: usize) -> Vec<(String, Abs)> {
    let mut out = Vec::new();
    let pairs = Abs::pairs(n);
    out.push(("empty".to_string(), Abs::empty(n)));
    out.push(("complete".to_string(), Abs::from_arcs(n, pairs.iter().copied())));
    out.push(("circuit".to_string(), Abs::from_arcs(n, (0..n).filter(|_| n > 1).map(|u| (u, (u + 1) % n)))));
    out.push(("path".to_string(), Abs::from_arcs(n, (0..n.saturating_sub(1)).map(|u| (u, u + 1)))));
    out.push(("star".to_string(), Abs::from_arcs(n, (1..n).flat_map(|u| [(0, u), (u, 0)]))));
    out.push(("transitive".to_string(), Abs::from_arcs(n, pairs.iter().copied().filter(|&(u, v)| u < v))));
    out.push(("band2".to_string(), Abs::from_arcs(n, pairs.iter().copied().filter(|&(u, v)| v == (u + 1) % n || v == (u + 2) % n))));
    out.push(("mod3".to_string(), Abs::from_arcs(n, pairs.iter().copied().filter(|&(u, v)| (u * 7 + v * 3) % 3 == 0))));
    out
}

fn space_family<R: Rep>(orders: &'static [usize], pars: usize) -> Space {
    let mut cases: Vec<(usize, usize)> = Vec::new();
    for &n in orders {
        for f in 0..family(n).len() {
            cases.push((n, f));
        }
    }
    let total = cases.len() as u64 * pars as u64;
    let sp = Space::new("c02.family", vec![R::ID, orders.iter().map(|&x| x as u64).sum(), pars as u64], total, format!("structured digraphs (empty, complete, circuit, path, star, transitive tournament, band, mod-3 pattern) of orders {orders:?} in {}, worker count 1..={pars}", R::NAME), move |idx, ctx| {
        let (n, f) = cases[(idx / pars as u64) as usize];
        let p = 1 + (idx % pars as u64) as usize;
        par(p);
        let (name, abs) = family(n).swap_remove(f);
        let d: R = mk::<R>(&abs);
        check_queries(&d, &abs, &[n, n + 7], 0, ctx);
        // a few long walks
        let walk: Vec<usize> = (0..n).collect();
        let want = walk.len() >= 2 && walk.windows(2).all(|w| abs.has(w[0], w[1]));
        chk!(ctx, abs, format!("{}::has_walk(0..n)", R::NAME), d.has_walk(&walk), want);
        if n > p && n % n.div_ceil(p) != 0 {
            ctx.nontrivial();
            ctx.tag("ragged_last_chunk");
        }
        ctx.sample(|| json!({"rep": R::NAME, "family": name, "order": n, "par": p}));
    });
    if R::ID == 0 { sp.procs() } else { sp }
}

/// Every digraph with exactly one arc (and, second variant, additionally the last
/// off-diagonal arc) at orders beyond exhaustive reach: every cell of the bit matrix
/// alone in its 64-bit block, every row alone for the list representations.
fn space_single_arc<R: Rep>(orders: &'static [usize]) -> Space {
    let mut cases: Vec<(usize, usize, usize)> = Vec::new();
    for &n in orders {
        for u in 0..n {
            for v in 0..n {
                if u != v {
                    cases.push((n, u, v));
                }
            }
        }
    }
    let cases = Arc::new(cases);
    let sp = Space::new("c02.single_arc", vec![R::ID, orders.iter().map(|&x| x as u64).sum()], cases.len() as u64 * 2, format!("every one-arc digraph (and one arc + the last off-diagonal arc) at orders {orders:?} in {}, every query", R::NAME), move |idx, ctx| {
        let (n, u, v) = cases[(idx / 2) as usize];
        let mut abs = Abs::from_arcs(n, [(u, v)]);
        if idx % 2 == 1 {
            abs.a.insert((n - 1, n - 2));
        }
        par(1 + (idx % 5) as usize);
        let d: R = mk::<R>(&abs);
        check_queries(&d, &abs, &[n], 0, ctx);
        if (u * n + v) % 64 == 63 || (u * n + v) % 64 == 0 {
            ctx.nontrivial();
        }
        ctx.sample(|| json!({"rep": R::NAME, "digraph": abs.arcs_json(), "queries": "all of C02"}));
    });
    if R::ID == 0 { sp.procs() } else { sp }
}

pub fn build(tier: &str, seed: u64) -> Check {
    let thorough = tier == "thorough";
    let mut spaces = Vec::new();
    let maxn = if thorough { 5 } else { 4 };
    macro_rules! reps {
        ($($t:ty),*) => {$(
            for n in 1..=maxn {
                // walks up to length 3 (4 in the thorough tier for n ≤ 4)
                let wl = if n <= 3 { 4 } else if n == 4 { if thorough { 4 } else { 3 } } else { 2 };
                spaces.push(space_contig::<$t>(n, wl));
            }
        )*};
    }
    reps!(AL, AM, AX, EL, WU);
    spaces.push(space_sparse(&[0, 1, 4, 9], 3, 3));
    spaces.push(space_sparse(&[2, 3, 7], 3, 2));
    if thorough {
        spaces.push(space_sparse(&[0, 2, 5, 6, 11], 4, 2));
    }
    static ORD_Q: [usize; 9] = [8, 9, 11, 15, 16, 17, 31, 33, 40];
    static ORD_T: [usize; 14] = [8, 9, 11, 12, 15, 16, 17, 23, 31, 32, 33, 40, 64, 65];
    let ords: &'static [usize] = if thorough { &ORD_T } else { &ORD_Q };
    static SA_Q: [usize; 7] = [8, 9, 11, 12, 13, 16, 17];
    static SA_T: [usize; 14] = [6, 7, 8, 9, 10, 11, 12, 13, 16, 17, 23, 24, 32, 33];
    let sa: &'static [usize] = if thorough { &SA_T } else { &SA_Q };
    spaces.push(space_single_arc::<AX>(sa));
    spaces.push(space_single_arc::<EL>(sa));
    spaces.push(space_single_arc::<AL>(sa));
    spaces.push(space_single_arc::<AM>(sa));
    spaces.push(space_single_arc::<WU>(sa));
    spaces.push(space_family::<AL>(ords, 16));
    spaces.push(space_family::<AX>(ords, 1));
    spaces.push(space_family::<EL>(ords, 1));
    spaces.push(space_family::<AM>(ords, 1));
    spaces.push(space_family::<WU>(ords, 1));
    // orders whose rows are longer than a 64-bit word (column stride > 64), orders on both
    // sides of 64 / 128, and orders with degrees above 255 (star, complete)
    static ORD_BIG: [usize; 9] = [64, 65, 66, 100, 129, 130, 257, 258, 300];
    spaces.push(space_family::<AX>(&ORD_BIG, 1));
    spaces.push(space_family::<EL>(&ORD_BIG, 1));
    spaces.push(space_family::<AM>(&ORD_BIG, 1));
    spaces.push(space_family::<WU>(&ORD_BIG, 1));
    spaces.push(space_family::<AL>(&ORD_BIG, 3));
    let report = super::report(
        "C02",
        tier,
        seed,
        "bounded-exhaustive: every digraph on 0..n (n ≤ 4 quick, ≤ 5 thorough) is built in each of the five representations through the public API and every query of C02 is compared with its set definition on the reference (V, A, w); AdjacencyMap additionally over every vertex set of small id pools (non-contiguous ids) with every arc set; structured families at orders 8..65 and 64, 65, 66, 100, 129, 130, 257, 258, 300 (rows longer than one 64-bit word; degrees above 255) for word boundaries and thread chunking. A case is non-trivial when the digraph has at least one arc and a vertex with indegree != outdegree (sparse space: additionally non-contiguous ids; family space: ragged last chunk).",
        &[
            "weights are 1 in this check (weights are exercised by C01/C03/C07)",
            "orders > 5 only through the listed families",
            "partial queries (indegree, out_neighbors, ...) are only asked for vertices of V",
        ],
        json!({"max_order_exhaustive": maxn, "family_orders": ords, "sparse_pools": [[0,1,4,9],[2,3,7]]}),
    );
    let _ = BTreeSet::<usize>::new();
    Check { spaces, report, post: None }
}
