//! C03 (Dijkstra), C05 (predecessor trees / shortest paths), C07
//! (Bellman-Ford-Moore), C08 (Floyd-Warshall) over every small weighted
//! digraph with weights from a small alphabet.

use crate::core::{guarded, Ctx, Space};
use crate::refm::Abs;
use crate::reps::*;
use crate::spacesx::*;
use crate::Check;
use graaf::*;
use serde_json::{json, Value};
use std::collections::BTreeSet;

pub const NMAX: usize = 12;
pub const INF: i128 = i128::MAX;

/// A small weighted digraph as a matrix — the reference model for the
/// weighted algorithms, kept array-based so that 10^8 cases are affordable.
#[derive(Clone, Copy, Debug)]
pub struct WG {
    pub n: usize,
    pub has: [[bool; NMAX]; NMAX],
    pub w: [[i64; NMAX]; NMAX],
    pub arcs: usize,
}

impl WG {
    /// digit per ordered pair in base |alphabet|+1; 0 = no arc.
    pub fn from_code(n: usize, mut code: u64, alphabet: &[i64]) -> Self {
        let b = alphabet.len() as u64 + 1;
        let mut g = WG { n, has: [[false; NMAX]; NMAX], w: [[0; NMAX]; NMAX], arcs: 0 };
        for u in 0..n {
            for v in 0..n {
                if u != v {
                    let d = code % b;
                    code /= b;
                    if d > 0 {
                        g.has[u][v] = true;
                        g.w[u][v] = alphabet[d as usize - 1];
                        g.arcs += 1;
                    }
                }
            }
        }
        g
    }
    /// unit weights from an arc bitmask
    pub fn from_mask(n: usize, mask: u64) -> Self {
        let mut g = WG { n, has: [[false; NMAX]; NMAX], w: [[0; NMAX]; NMAX], arcs: 0 };
        let mut i = 0;
        for u in 0..n {
            for v in 0..n {
                if u != v {
                    if mask >> i & 1 == 1 {
                        g.has[u][v] = true;
                        g.w[u][v] = 1;
                        g.arcs += 1;
                    }
                    i += 1;
                }
            }
        }
        g
    }
    pub fn to_abs(&self) -> Abs {
        let mut a = Abs::empty(self.n);
        for u in 0..self.n {
            for v in 0..self.n {
                if self.has[u][v] {
                    a.a.insert((u, v));
                    a.w.insert((u, v), self.w[u][v] as i128);
                }
            }
        }
        a
    }
    pub fn json(&self) -> Value {
        let mut arcs = Vec::new();
        for u in 0..self.n {
            for v in 0..self.n {
                if self.has[u][v] {
                    arcs.push(format!("{u}->{v}:{}", self.w[u][v]));
                }
            }
        }
        json!({"order": self.n, "arcs": arcs})
    }
    /// Half of the digraphs (odd arc count) are built through a history that first
    /// gives every arc another weight and then re-adds it with the real one.
    pub fn build_wu(&self) -> WU {
        let mut d = WU::empty(self.n);
        for u in 0..self.n {
            for v in 0..self.n {
                if self.has[u][v] {
                    if self.arcs % 2 == 1 {
                        d.add_arc_weighted(u, v, self.w[u][v] as usize + 7);
                    }
                    d.add_arc_weighted(u, v, self.w[u][v] as usize);
                }
            }
        }
        d
    }
    pub fn build_wi(&self) -> WI {
        let mut d = WI::empty(self.n);
        for u in 0..self.n {
            for v in 0..self.n {
                if self.has[u][v] {
                    if self.arcs % 2 == 1 {
                        d.add_arc_weighted(u, v, self.w[u][v] as isize - 9);
                    }
                    d.add_arc_weighted(u, v, self.w[u][v] as isize);
                }
            }
        }
        d
    }
    /// reachable set from a source mask, by frontier iteration
    pub fn reach(&self, src: u32) -> u32 {
        let mut r = src & ((1 << self.n) - 1);
        loop {
            let mut nr = r;
            for u in 0..self.n {
                if r >> u & 1 == 1 {
                    for v in 0..self.n {
                        if self.has[u][v] {
                            nr |= 1 << v;
                        }
                    }
                }
            }
            if nr == r {
                return r;
            }
            r = nr;
        }
    }
    /// Minimum walk weight from the nearest source: n-1 (+1) rounds of
    /// relaxing every arc, Jacobi style, in i128. Only meaningful when no
    /// negative circuit is reachable from the sources.
    pub fn dist(&self, src: u32) -> [i128; NMAX] {
        let mut d = [INF; NMAX];
        for s in 0..self.n {
            if src >> s & 1 == 1 {
                d[s] = 0;
            }
        }
        for _ in 0..self.n {
            let mut nd = d;
            for u in 0..self.n {
                if d[u] == INF {
                    continue;
                }
                for v in 0..self.n {
                    if self.has[u][v] {
                        let c = d[u] + self.w[u][v] as i128;
                        if c < nd[v] {
                            nd[v] = c;
                        }
                    }
                }
            }
            if nd == d {
                break;
            }
            d = nd;
        }
        d
    }
    /// mask of vertices on some negative-weight elementary circuit, by
    /// exhaustive simple-path extension from each smallest vertex
    pub fn neg_circuit_vertices(&self) -> u32 {
        fn ext(g: &WG, s: usize, last: usize, used: u32, wsum: i128, out: &mut u32) {
            for x in 0..g.n {
                if !g.has[last][x] {
                    continue;
                }
                if x == s {
                    if used.count_ones() >= 2 && wsum + (g.w[last][x] as i128) < 0 {
                        *out |= used;
                    }
                } else if x > s && used >> x & 1 == 0 {
                    ext(g, s, x, used | 1 << x, wsum + g.w[last][x] as i128, out);
                }
            }
        }
        let mut out = 0;
        for s in 0..self.n {
            ext(self, s, s, 1 << s, 0, &mut out);
        }
        out
    }
    pub fn nonneg(&self) -> bool {
        (0..self.n).all(|u| (0..self.n).all(|v| !self.has[u][v] || self.w[u][v] >= 0))
    }
}

fn mask_vec(m: u32, n: usize) -> Vec<usize> {
    (0..n).filter(|i| m >> i & 1 == 1).collect()
}

/// Lazy-deletion heap simulation on the reference: is a superseded entry
/// popped at all / before the last reachable vertex is settled?
fn stale_pop(g: &WG, src: u32) -> (bool, bool) {
    use std::cmp::Reverse;
    use std::collections::BinaryHeap;
    let mut dist = [INF; NMAX];
    let mut heap = BinaryHeap::new();
    for s in 0..g.n {
        if src >> s & 1 == 1 {
            dist[s] = 0;
            heap.push((Reverse(0i128), s));
        }
    }
    let total = g.reach(src).count_ones();
    let mut settled = 0;
    let (mut any, mut before_end) = (false, false);
    while let Some((Reverse(d), u)) = heap.pop() {
        if dist[u] != d {
            any = true;
            if settled < total {
                before_end = true;
            }
            continue;
        }
        settled += 1;
        for v in 0..g.n {
            if g.has[u][v] {
                let c = d + g.w[u][v] as i128;
                if c < dist[v] {
                    dist[v] = c;
                    heap.push((Reverse(c), v));
                }
            }
        }
    }
    (any, before_end)
}

// ------------------------------------------------------------------ C03

pub fn dijkstra_case(g: &WG, d: &WU, srcs: &[usize], ctx: &mut Ctx) {
    let mut sm = 0u32;
    for &s in srcs {
        sm |= 1 << s;
    }
    let dist = g.dist(sm);
    let det = || json!({"digraph": g.json(), "sources_in_order": srcs, "reference_distances": dist.iter().take(g.n).map(|&x| if x == INF { json!("unreachable") } else if x > i64::MAX as i128 { json!(x.to_string()) } else { json!(x as i64) }).collect::<Vec<_>>()});
    ctx.exec();
    match guarded(|| Dijkstra::new(d, srcs.to_vec().into_iter()).collect::<Vec<usize>>()) {
        Err(e) => ctx.fail(format!("Dijkstra panicked: {e}"), det()),
        Ok(seq) => {
            let mut seen = 0u32;
            let mut last = 0i128;
            let mut bad = None;
            for &v in &seq {
                if v >= g.n || dist[v] == INF {
                    bad = Some(format!("Dijkstra yielded {v}, which is unreachable"));
                    break;
                }
                if seen >> v & 1 == 1 {
                    bad = Some(format!("Dijkstra yielded {v} twice"));
                    break;
                }
                seen |= 1 << v;
                if dist[v] < last {
                    bad = Some(format!("Dijkstra order not non-decreasing in distance at vertex {v}"));
                    break;
                }
                last = dist[v];
            }
            if bad.is_none() && seen != g.reach(sm) {
                bad = Some(format!("Dijkstra yielded {seq:?} but the reachable set is {:?}", mask_vec(g.reach(sm), g.n)));
            }
            if let Some(b) = bad {
                ctx.fail(format!("{b}: sequence {seq:?}"), det());
                return;
            }
        }
    }
    ctx.exec();
    match guarded(|| DijkstraDist::new(d, srcs.to_vec().into_iter()).collect::<Vec<(usize, usize)>>()) {
        Err(e) => ctx.fail(format!("DijkstraDist panicked: {e}"), det()),
        Ok(seq) => {
            let mut seen = 0u32;
            let mut last = 0i128;
            let mut bad = None;
            for &(v, w) in &seq {
                if v >= g.n || dist[v] == INF {
                    bad = Some(format!("DijkstraDist yielded {v}, which is unreachable"));
                    break;
                }
                if seen >> v & 1 == 1 {
                    bad = Some(format!("DijkstraDist yielded {v} twice"));
                    break;
                }
                seen |= 1 << v;
                if w as i128 != dist[v] {
                    bad = Some(format!("DijkstraDist yielded ({v}, {w}); the shortest distance is {}", dist[v]));
                    break;
                }
                if dist[v] < last {
                    bad = Some(format!("DijkstraDist order not non-decreasing in distance at vertex {v}"));
                    break;
                }
                last = dist[v];
            }
            if bad.is_none() && seen != g.reach(sm) {
                bad = Some(format!("DijkstraDist yielded {seq:?} but the reachable set is {:?}", mask_vec(g.reach(sm), g.n)));
            }
            if let Some(b) = bad {
                ctx.fail(format!("{b}: sequence {seq:?}"), det());
                return;
            }
        }
    }
    ctx.exec();
    match guarded(|| DijkstraDist::new(d, srcs.to_vec().into_iter()).distances()) {
        Err(e) => ctx.fail(format!("DijkstraDist::distances panicked: {e}"), det()),
        Ok(got) => {
            let want: Vec<usize> = (0..g.n).map(|v| if dist[v] == INF { usize::MAX } else { dist[v] as usize }).collect();
            if got != want {
                ctx.fail(format!("DijkstraDist::distances() = {got:?}, shortest distances are {want:?} (usize::MAX = unreachable)"), det());
                return;
            }
        }
    }
    // distances() on a search that has already yielded k items: entries are exact or usize::MAX,
    // and every reachable vertex is either already yielded or labelled now
    let len = g.reach(sm).count_ones() as usize;
    let ks: Vec<usize> = if len <= 6 { (1..len).collect() } else { vec![1, 2, len / 2, len - 1] };
    for k in ks {
        ctx.exec();
        match guarded(|| {
            let mut it = DijkstraDist::new(d, srcs.to_vec().into_iter());
            let head: Vec<(usize, usize)> = it.by_ref().take(k).collect();
            (head, it.distances())
        }) {
            Err(e) => {
                ctx.fail(format!("DijkstraDist: {k} × next() then distances() panicked: {e}"), det());
                return;
            }
            Ok((head, got)) => {
                let mut acc = 0u32;
                for h in &head {
                    if h.0 < g.n {
                        acc |= 1 << h.0;
                    }
                }
                let mut bad = got.len() != g.n;
                for (v, &w) in got.iter().enumerate().take(g.n) {
                    if w != usize::MAX {
                        acc |= 1 << v;
                        if dist[v] == INF || w as i128 != dist[v] {
                            bad = true;
                        }
                    }
                }
                if bad || acc != g.reach(sm) {
                    ctx.fail(format!("DijkstraDist: after {k} × next() (items {head:?}) distances() = {got:?}: an entry is neither the exact distance nor usize::MAX, or a reachable vertex is neither yielded nor labelled"), det());
                    return;
                }
            }
        }
    }
}

fn c03_space(n: usize, alphabet: &'static [i64], max_arcs: usize, max_sources: usize) -> Space {
    let total = pow(alphabet.len() as u64 + 1, n * (n - 1));
    Space::new("c03.dijkstra", vec![n as u64, alphabet.len() as u64, alphabet.iter().sum::<i64>().unsigned_abs() % 1_000_003, max_arcs as u64, max_sources as u64], total, format!("Dijkstra/DijkstraDist/distances on every AdjacencyListWeighted<usize> digraph on 0..{n} with weights from {alphabet:?} (≤ {max_arcs} arcs), every source subset with ≤ {max_sources} sources, ascending and descending order"), move |idx, ctx| {
        let g = WG::from_code(n, idx, alphabet);
        if g.arcs > max_arcs {
            ctx.skip();
            return;
        }
        let d = g.build_wu();
        let mut nt = false;
        for m in 0..(1u32 << n) {
            if m.count_ones() as usize > max_sources {
                continue;
            }
            let s = mask_vec(m, n);
            dijkstra_case(&g, &d, &s, ctx);
            if s.len() >= 2 {
                let mut r = s.clone();
                r.reverse();
                dijkstra_case(&g, &d, &r, ctx);
            }
            let (any, before) = stale_pop(&g, m);
            if any {
                ctx.tag("source_sets_with_superseded_heap_entry");
            }
            if before {
                nt = true;
            }
        }
        if nt {
            ctx.nontrivial();
        }
        ctx.sample(|| json!({"digraph": g.json(), "sources": "every subset, both orders"}));
    })
}

static A0125: [i64; 4] = [0, 1, 2, 5];
static A13: [i64; 2] = [1, 3];
static A013: [i64; 3] = [0, 1, 3];
/// weights beyond 32 bits: a narrowing cast or a 32-bit accumulator would show
static ABIG: [i64; 3] = [1, (1 << 32) + 1, 1 << 40];
// weights around 2^62: at order 3 every tentative distance (two settled arcs plus one more) stays
// below 2^64 while two-arc walks exceed isize::MAX (casts to a signed type become visible)
static AHUGE: [i64; 3] = [1, 1 << 62, (1 << 62) + 1];
static A1: [i64; 1] = [1];

pub fn c03(tier: &str, seed: u64) -> Check {
    let thorough = tier == "thorough";
    let mut spaces = vec![c03_space(1, &A0125, 99, 1), c03_space(2, &A0125, 99, 2), c03_space(3, &A0125, 99, 3), c03_space(4, &A13, 99, 4), c03_space(3, &ABIG, 99, 3), c03_space(4, &ABIG, 5, 2), c03_space(3, &AHUGE, 99, 3)];
    if thorough {
        spaces.push(c03_space(4, &A013, 99, 4));
        spaces.push(c03_space(5, &A13, 7, 1));
    } else {
        spaces.push(c03_space(4, &A013, 6, 1));
    }
    spaces.push(crate::props::fam::c03_family(thorough));
    spaces.push(crate::props::large::c03_big(thorough));
    spaces.push(crate::props::huge::space("C03"));
    let report = super::report(
        "C03",
        tier,
        seed,
        "bounded-exhaustive: every AdjacencyListWeighted<usize> digraph of order ≤ 3 with weights {0,1,2,5}, order 4 with weights {1,3} (all 3^12), order 4 with {0,1,3} (≤ 6 arcs quick / all 4^12 thorough), order 5 with ≤ 7 arcs (thorough) × every subset of sources in both orders; Dijkstra and DijkstraDist item streams (each reachable vertex once, none unreachable, non-decreasing true distance, exact item distance) and distances() against distances from |V|-1 rounds of set relaxation in i128; distances() is also called on a DijkstraDist that has already yielded k items (every k): entries exact or usize::MAX, every reachable vertex yielded or labelled. Ties are accepted in any order. Beyond exhaustive reach: a fixed catalogue of 17 structured shapes × 4 weight patterns at orders 6..11 (up to 110 arcs), every single source and six source sets. Non-trivial: a lazy-deletion heap simulated on the reference pops a superseded entry before the last reachable vertex is settled.",
        &["weights from small alphabets plus {1, 2^32+1, 2^40} and, at order 3, {1, 2^62, 2^62+1} (two-arc walks exceed isize::MAX; no tentative sum reaches 2^64)", "sources distinct and in range"],
        json!({"alphabets": {"n<=3": [0,1,2,5], "n=4": [[1,3],[0,1,3]]}}),
    );
    Check { spaces, report, post: None }
}

// ------------------------------------------------------------------ C05

fn path_check(g: &WG, path: &[usize], sm: u32, tm: u32, dist: &[i128; NMAX]) -> Result<(), String> {
    if path.is_empty() {
        return Err("empty path".into());
    }
    if path.iter().any(|&v| v >= g.n) {
        return Err("vertex out of range".into());
    }
    if sm >> path[0] & 1 == 0 {
        return Err(format!("path starts at {}, which is not a source", path[0]));
    }
    let last = *path.last().unwrap();
    if tm >> last & 1 == 0 {
        return Err(format!("path ends at {last}, which does not satisfy the target predicate"));
    }
    let mut wsum = 0i128;
    for w in path.windows(2) {
        if !g.has[w[0]][w[1]] {
            return Err(format!("{}->{} is not an arc", w[0], w[1]));
        }
        wsum += g.w[w[0]][w[1]] as i128;
    }
    let best = (0..g.n).filter(|&t| tm >> t & 1 == 1 && dist[t] != INF).map(|t| dist[t]).min().unwrap();
    if wsum != best {
        return Err(format!("path weight {wsum} but the minimum over all targets is {best}"));
    }
    Ok(())
}

fn tree_check(g: &WG, pred: &[Option<usize>], sm: u32, dist: &[i128; NMAX]) -> Result<(), String> {
    tree_check_resumed(g, pred, sm, dist, 0)
}

/// `none_ok`: vertices that were yielded before predecessors() was called on a search already
/// under way (their entries may be the neutral None).
fn tree_check_resumed(g: &WG, pred: &[Option<usize>], sm: u32, dist: &[i128; NMAX], none_ok: u32) -> Result<(), String> {
    if pred.len() != g.n {
        return Err(format!("tree has {} entries for order {}", pred.len(), g.n));
    }
    for v in 0..g.n {
        let is_src = sm >> v & 1 == 1;
        match pred[v] {
            None => {
                if !is_src && dist[v] != INF && none_ok >> v & 1 == 0 {
                    return Err(format!("reachable non-source vertex {v} has no predecessor"));
                }
            }
            Some(u) => {
                if is_src {
                    return Err(format!("source {v} has predecessor {u}"));
                }
                if dist[v] == INF {
                    return Err(format!("unreachable vertex {v} has predecessor {u}"));
                }
                if u >= g.n || !g.has[u][v] {
                    return Err(format!("predecessor {u} of {v}: {u}->{v} is not an arc"));
                }
                if dist[u] == INF || dist[u] + g.w[u][v] as i128 != dist[v] {
                    return Err(format!("predecessor {u} of {v}: dist({u}) + w({u},{v}) != dist({v})"));
                }
            }
        }
    }
    Ok(())
}

pub fn c05_dijkstra_case(g: &WG, d: &WU, srcs: &[usize], ctx: &mut Ctx) -> bool {
    let mut sm = 0u32;
    for &s in srcs {
        sm |= 1 << s;
    }
    let dist = g.dist(sm);
    let det = || json!({"algo": "DijkstraPred", "digraph": g.json(), "sources_in_order": srcs});
    ctx.exec();
    match guarded(|| DijkstraPred::new(d, srcs.to_vec().into_iter()).predecessors().pred) {
        Err(e) => {
            ctx.fail(format!("DijkstraPred::predecessors panicked: {e}"), det());
            return false;
        }
        Ok(pred) => {
            if let Err(e) = tree_check(g, &pred, sm, &dist) {
                ctx.fail(format!("DijkstraPred::predecessors() = {pred:?}: {e}"), det());
                return false;
            }
        }
    }
    // predecessors() on a search that has already yielded k items: every entry is a valid tree arc
    // or (for the vertices already yielded) None
    {
        let len = g.reach(sm).count_ones() as usize;
        let ks: Vec<usize> = if len <= 6 { (1..len).collect() } else { vec![1, 2, len / 2, len - 1] };
        for k in ks {
            ctx.exec();
            match guarded(|| {
                let mut it = DijkstraPred::new(d, srcs.to_vec().into_iter());
                let head: Vec<(Option<usize>, usize)> = it.by_ref().take(k).collect();
                (head, it.predecessors().pred)
            }) {
                Err(e) => {
                    ctx.fail(format!("DijkstraPred: {k} × next() then predecessors() panicked: {e}"), det());
                    return false;
                }
                Ok((head, pred)) => {
                    let none_ok = head.iter().filter(|h| h.1 < g.n).fold(0u32, |m, h| m | 1 << h.1);
                    if let Err(e) = tree_check_resumed(g, &pred, sm, &dist, none_ok) {
                        ctx.fail(format!("DijkstraPred: after {k} × next() (items {head:?}) predecessors() = {pred:?}: {e}"), det());
                        return false;
                    }
                }
            }
        }
    }
    // the item stream itself: each reachable vertex once, with a valid predecessor
    ctx.exec();
    match guarded(|| DijkstraPred::new(d, srcs.to_vec().into_iter()).collect::<Vec<_>>()) {
        Err(e) => {
            ctx.fail(format!("DijkstraPred iteration panicked: {e}"), det());
            return false;
        }
        Ok(items) => {
            let mut seen = 0u32;
            for &(p, v) in &items {
                if v >= g.n || seen >> v & 1 == 1 || dist[v] == INF {
                    ctx.fail(format!("DijkstraPred items {items:?}: vertex {v} repeated or unreachable"), det());
                    return false;
                }
                seen |= 1 << v;
                let ok = match p {
                    None => sm >> v & 1 == 1,
                    Some(u) => u < g.n && g.has[u][v] && dist[u] != INF && dist[u] + g.w[u][v] as i128 == dist[v],
                };
                if !ok {
                    ctx.fail(format!("DijkstraPred items {items:?}: ({p:?}, {v}) is not a shortest-path tree arc"), det());
                    return false;
                }
            }
            if seen != g.reach(sm) {
                ctx.fail(format!("DijkstraPred items {items:?} do not cover the reachable set"), det());
                return false;
            }
        }
    }
    let reach = g.reach(sm);
    let mut nt = false;
    for tm in 0..(1u32 << g.n) {
        ctx.exec();
        let r = guarded(|| DijkstraPred::new(d, srcs.to_vec().into_iter()).shortest_path(|v| tm >> v & 1 == 1));
        match r {
            Err(e) => {
                ctx.fail(format!("DijkstraPred::shortest_path panicked: {e}"), json!({"digraph": g.json(), "sources_in_order": srcs, "targets": mask_vec(tm, g.n)}));
                return false;
            }
            Ok(None) => {
                if tm & reach != 0 {
                    ctx.fail("DijkstraPred::shortest_path returned None although a target is reachable", json!({"digraph": g.json(), "sources_in_order": srcs, "targets": mask_vec(tm, g.n)}));
                    return false;
                }
            }
            Ok(Some(p)) => {
                if tm & reach == 0 {
                    ctx.fail(format!("DijkstraPred::shortest_path returned {p:?} although no target is reachable"), json!({"digraph": g.json(), "sources_in_order": srcs, "targets": mask_vec(tm, g.n)}));
                    return false;
                }
                if let Err(e) = path_check(g, &p, sm, tm, &dist) {
                    ctx.fail(format!("DijkstraPred::shortest_path returned {p:?}: {e}"), json!({"digraph": g.json(), "sources_in_order": srcs, "targets": mask_vec(tm, g.n)}));
                    return false;
                }
                let rt = tm & reach;
                if rt.count_ones() >= 2 {
                    let ds: BTreeSet<i128> = (0..g.n).filter(|&t| rt >> t & 1 == 1).map(|t| dist[t]).collect();
                    if ds.len() >= 2 {
                        nt = true;
                    }
                }
            }
        }
    }
    nt
}

fn c05_dij_space(n: usize, alphabet: &'static [i64], max_sources: usize) -> Space {
    let total = pow(alphabet.len() as u64 + 1, n * (n - 1));
    Space::new("c05.dijkstra", vec![n as u64, alphabet.len() as u64, alphabet.iter().sum::<i64>().unsigned_abs() % 1_000_003, max_sources as u64], total, format!("DijkstraPred predecessors / items / shortest_path on every weighted digraph on 0..{n} with weights {alphabet:?}, source subsets with 1..={max_sources} sources, every target predicate (2^{n} subsets)"), move |idx, ctx| {
        let g = WG::from_code(n, idx, alphabet);
        let d = g.build_wu();
        let mut nt = false;
        for m in 0..(1u32 << n) {
            if m.count_ones() as usize > max_sources {
                continue;
            }
            let s = mask_vec(m, n);
            nt |= c05_dijkstra_case(&g, &d, &s, ctx);
            if s.len() >= 2 {
                let mut r = s.clone();
                r.reverse();
                nt |= c05_dijkstra_case(&g, &d, &r, ctx);
            }
        }
        if nt {
            ctx.nontrivial();
        }
        ctx.sample(|| json!({"algo": "DijkstraPred", "digraph": g.json(), "sources": format!("subsets with ≤ {max_sources} sources"), "targets": "every subset"}));
    })
}

fn cycle_ok(g: &WG, c: &[usize]) -> bool {
    let distinct: BTreeSet<usize> = c.iter().copied().collect();
    c.len() >= 2 && distinct.len() == c.len() && c.iter().all(|&v| v < g.n) && (0..c.len()).all(|i| g.has[c[i]][c[(i + 1) % c.len()]])
}

pub fn c05_bfs_case<R: Rep>(g: &WG, d: &R, srcs: &[usize], ctx: &mut Ctx) -> bool {
    let mut sm = 0u32;
    for &s in srcs {
        sm |= 1 << s;
    }
    let dist = g.dist(sm); // unit weights: hop distances
    let det = || json!({"algo": "BfsPred", "rep": R::NAME, "digraph": g.json(), "sources_in_order": srcs});
    ctx.exec();
    match guarded(|| BfsPred::new(d, srcs.to_vec().into_iter()).predecessors().pred) {
        Err(e) => {
            ctx.fail(format!("BfsPred::predecessors panicked: {e}"), det());
            return false;
        }
        Ok(pred) => {
            if let Err(e) = tree_check(g, &pred, sm, &dist) {
                ctx.fail(format!("BfsPred::predecessors() = {pred:?}: {e}"), det());
                return false;
            }
        }
    }
    {
        let len = g.reach(sm).count_ones() as usize;
        let ks: Vec<usize> = if len <= 6 { (1..len).collect() } else { vec![1, 2, len / 2, len - 1] };
        for k in ks {
            ctx.exec();
            match guarded(|| {
                let mut it = BfsPred::new(d, srcs.to_vec().into_iter());
                let head: Vec<(Option<usize>, usize)> = it.by_ref().take(k).collect();
                (head, it.predecessors().pred)
            }) {
                Err(e) => {
                    ctx.fail(format!("BfsPred: {k} × next() then predecessors() panicked: {e}"), det());
                    return false;
                }
                Ok((head, pred)) => {
                    let none_ok = head.iter().filter(|h| h.1 < g.n).fold(0u32, |m, h| m | 1 << h.1);
                    if let Err(e) = tree_check_resumed(g, &pred, sm, &dist, none_ok) {
                        ctx.fail(format!("BfsPred: after {k} × next() (items {head:?}) predecessors() = {pred:?}: {e}"), det());
                        return false;
                    }
                }
            }
        }
    }
    ctx.exec();
    match guarded(|| BfsPred::new(d, srcs.to_vec().into_iter()).collect::<Vec<_>>()) {
        Err(e) => {
            ctx.fail(format!("BfsPred iteration panicked: {e}"), det());
            return false;
        }
        Ok(items) => {
            let mut seen = 0u32;
            let mut last = 0i128;
            for &(p, v) in &items {
                if v >= g.n || seen >> v & 1 == 1 || dist[v] == INF {
                    ctx.fail(format!("BfsPred items {items:?}: vertex {v} repeated or unreachable"), det());
                    return false;
                }
                seen |= 1 << v;
                let ok = match p {
                    None => sm >> v & 1 == 1,
                    Some(u) => u < g.n && g.has[u][v] && dist[u] != INF && dist[u] + 1 == dist[v],
                };
                if !ok || dist[v] < last {
                    ctx.fail(format!("BfsPred items {items:?}: ({p:?}, {v}) is not a shortest-path tree arc in nearest-first order"), det());
                    return false;
                }
                last = dist[v];
            }
            if seen != g.reach(sm) {
                ctx.fail(format!("BfsPred items {items:?} do not cover the reachable set"), det());
                return false;
            }
        }
    }
    ctx.exec();
    match guarded(|| BfsPred::new(d, srcs.to_vec().into_iter()).cycles()) {
        Err(e) => {
            ctx.fail(format!("BfsPred::cycles panicked: {e}"), det());
            return false;
        }
        Ok(cs) => {
            for c in &cs {
                if !cycle_ok(g, c) {
                    ctx.fail(format!("BfsPred::cycles() returned {c:?}, which is not an elementary cycle of the digraph (all: {cs:?})"), det());
                    return false;
                }
            }
            if !cs.is_empty() {
                ctx.tag("source_sets_with_cycles_reported");
            }
        }
    }
    let reach = g.reach(sm);
    let mut nt = false;
    for tm in 0..(1u32 << g.n) {
        ctx.exec();
        let dd = || json!({"algo": "BfsPred", "rep": R::NAME, "digraph": g.json(), "sources_in_order": srcs, "targets": mask_vec(tm, g.n)});
        match guarded(|| BfsPred::new(d, srcs.to_vec().into_iter()).shortest_path(|v| tm >> v & 1 == 1)) {
            Err(e) => {
                ctx.fail(format!("BfsPred::shortest_path panicked: {e}"), dd());
                return false;
            }
            Ok(None) => {
                if tm & reach != 0 {
                    ctx.fail("BfsPred::shortest_path returned None although a target is reachable", dd());
                    return false;
                }
            }
            Ok(Some(p)) => {
                if tm & reach == 0 {
                    ctx.fail(format!("BfsPred::shortest_path returned {p:?} although no target is reachable"), dd());
                    return false;
                }
                if let Err(e) = path_check(g, &p, sm, tm, &dist) {
                    ctx.fail(format!("BfsPred::shortest_path returned {p:?}: {e}"), dd());
                    return false;
                }
                let rt = tm & reach;
                if rt.count_ones() >= 2 {
                    let ds: BTreeSet<i128> = (0..g.n).filter(|&t| rt >> t & 1 == 1).map(|t| dist[t]).collect();
                    if ds.len() >= 2 {
                        nt = true;
                    }
                }
            }
        }
    }
    nt
}

fn c05_bfs_space<R: Rep>(n: usize, max_sources: usize) -> Space {
    Space::new("c05.bfs", vec![R::ID, n as u64, max_sources as u64], dcount(n), format!("BfsPred predecessors / items / cycles / shortest_path on every digraph on 0..{n} in {}, source subsets with ≤ {max_sources} sources (both orders), every target predicate", R::NAME), move |idx, ctx| {
        let g = WG::from_mask(n, idx);
        let abs = Abs::from_mask(n, idx);
        let d: R = mk::<R>(&abs);
        let mut nt = false;
        for m in 0..(1u32 << n) {
            if m.count_ones() as usize > max_sources {
                continue;
            }
            let s = mask_vec(m, n);
            nt |= c05_bfs_case(&g, &d, &s, ctx);
            if s.len() >= 2 {
                let mut r = s.clone();
                r.reverse();
                nt |= c05_bfs_case(&g, &d, &r, ctx);
            }
        }
        if nt {
            ctx.nontrivial();
        }
        ctx.sample(|| json!({"algo": "BfsPred", "rep": R::NAME, "digraph": abs.arcs_json(), "sources": "every subset", "targets": "every subset"}));
    })
}

pub fn c05(tier: &str, seed: u64) -> Check {
    let thorough = tier == "thorough";
    let mut spaces = Vec::new();
    macro_rules! reps {
        ($($t:ty),*) => {$(
            for n in 1..=4 { spaces.push(c05_bfs_space::<$t>(n, n)); }
        )*};
    }
    reps!(AL, AM, AX, EL, WU);
    if thorough {
        spaces.push(c05_bfs_space::<AL>(5, 2));
        spaces.push(c05_bfs_space::<AX>(5, 2));
    } else {
        spaces.push(c05_bfs_space::<AL>(5, 1));
    }
    spaces.push(c05_dij_space(2, &A0125, 2));
    spaces.push(c05_dij_space(3, &ABIG, 3));
    spaces.push(c05_dij_space(3, &AHUGE, 3));
    spaces.push(c05_dij_space(3, &A0125, 3));
    spaces.push(c05_dij_space(4, &A13, if thorough { 4 } else { 1 }));
    if thorough {
        spaces.push(c05_dij_space(4, &A013, 1));
    }
    spaces.push(crate::props::fam::c05_family(thorough));
    spaces.push(crate::props::large::c05_big(thorough));
    spaces.push(crate::props::huge::space("C05"));
    let report = super::report(
        "C05",
        tier,
        seed,
        "bounded-exhaustive: BFS part — every digraph on 0..n, n ≤ 4 (order 5 with ≤ 1-2 sources) × 5 representations × every source subset in both orders × every target predicate (all 2^n vertex subsets); Dijkstra part — every weighted digraph of order ≤ 3 over {0,1,2,5} with all source subsets, order 4 over {1,3} (single sources quick, all subsets thorough) × every target predicate. Oracle: tree entries are shortest-path-tree arcs w.r.t. reference distances (also when predecessors() is called on a BfsPred / DijkstraPred that has already yielded k items, every k: entries valid, None only for vertices yielded before the call); shortest_path is None iff no target reachable, else starts at a source, ends at a target, follows arcs and has the minimum weight over all targets (any optimal path accepted); every cycles() entry is an elementary cycle. Plus the structured catalogue at orders 6..9 with every target predicate. Non-trivial: ≥ 2 reachable targets at different distances (every catalogue case counts).",
        &["cycles(): soundness only (the property does not claim completeness)", "sources distinct and in range"],
        json!({"bfs_max_order": 5, "dijkstra_alphabets": [[0,1,2,5],[1,3]]}),
    );
    Check { spaces, report, post: None }
}

// ------------------------------------------------------------------ C07 / C08

static AM2: [i64; 5] = [-2, -1, 0, 1, 2];
static AM1P2: [i64; 2] = [-1, 2];
static AM4: [i64; 4] = [-2, -1, 1, 3];
static AM3: [i64; 3] = [-1, 0, 2];
static AMBIG: [i64; 4] = [-(1 << 40), 1, (1 << 33) + 3, 1 << 41];

fn fmt_d(d: &[i128; NMAX], n: usize) -> Vec<Value> {
    d.iter().take(n).map(|&x| if x == INF { json!("unreachable") } else if x > i64::MAX as i128 { json!(x.to_string()) } else { json!(x as i64) }).collect()
}

fn c07_case(g: &WG, ctx: &mut Ctx) {
    c07_case_with(g, None, ctx);
}

/// `neg_known`: the mask of vertices on negative circuits when it is known by
/// construction (large structured inputs), else computed by enumeration.
pub fn c07_case_with(g: &WG, neg_known: Option<u32>, ctx: &mut Ctx) {
    let d = g.build_wi();
    let neg = neg_known.unwrap_or_else(|| g.neg_circuit_vertices());
    let nonneg = g.nonneg();
    let du = if nonneg { Some(g.build_wu()) } else { None };
    ctx.tag(["arcs_mod4_is_0", "arcs_mod4_is_1", "arcs_mod4_is_2", "arcs_mod4_is_3"][g.arcs % 4]);
    for s in 0..g.n {
        ctx.exec();
        let sm = 1u32 << s;
        let reach = g.reach(sm);
        let det = || json!({"digraph": g.json(), "source": s});
        let r = guarded(|| {
            let mut b = BellmanFordMoore::new(&d, s);
            let first = b.distances().map(<[isize]>::to_vec);
            let second = b.distances().map(<[isize]>::to_vec);
            (first, second)
        });
        let (first, second) = match r {
            Ok(x) => x,
            Err(e) => {
                ctx.fail(format!("BellmanFordMoore panicked: {e}"), det());
                continue;
            }
        };
        if first != second {
            ctx.fail(format!("BellmanFordMoore::distances() called twice on one object: {first:?} then {second:?}"), det());
            continue;
        }
        let neg_reachable = neg & reach != 0;
        match &first {
            None => {
                if neg == 0 {
                    ctx.fail("BellmanFordMoore::distances() returned None but the digraph has no negative circuit", det());
                    continue;
                }
                if !neg_reachable {
                    ctx.tag("none_on_unreachable_negative_circuit_accepted");
                }
            }
            Some(dv) => {
                if neg_reachable {
                    ctx.fail(format!("BellmanFordMoore::distances() returned Some({dv:?}) although a negative circuit is reachable from the source"), det());
                    continue;
                }
                let want = g.dist(sm);
                let wv: Vec<isize> = (0..g.n).map(|v| if want[v] == INF { isize::MAX } else { want[v] as isize }).collect();
                if *dv != wv {
                    ctx.fail(format!("BellmanFordMoore::distances() = {dv:?}, minimum walk weights are {:?}", fmt_d(&want, g.n)), det());
                    continue;
                }
                if let Some(du) = &du {
                    ctx.exec();
                    match guarded(|| DijkstraDist::new(du, std::iter::once(s)).distances()) {
                        Ok(dd) => {
                            let same = (0..g.n).all(|v| (dd[v] == usize::MAX && dv[v] == isize::MAX) || (dd[v] != usize::MAX && dd[v] as i128 == dv[v] as i128));
                            if !same {
                                ctx.fail(format!("on non-negative weights BellmanFordMoore {dv:?} and DijkstraDist {dd:?} disagree"), det());
                            }
                        }
                        Err(e) => ctx.fail(format!("DijkstraDist panicked: {e}"), det()),
                    }
                }
            }
        }
    }
    if neg != 0 && g.arcs >= 3 {
        ctx.nontrivial();
    }
}

fn c07_space(n: usize, alphabet: &'static [i64]) -> Space {
    let total = pow(alphabet.len() as u64 + 1, n * (n - 1));
    Space::new("c07.bfm", vec![n as u64, alphabet.len() as u64, (alphabet.iter().sum::<i64>() + 100).unsigned_abs() % 1_000_003], total, format!("BellmanFordMoore::distances on every AdjacencyListWeighted<isize> digraph on 0..{n} with weights from {alphabet:?}, every source"), move |idx, ctx| {
        let g = WG::from_code(n, idx, alphabet);
        c07_case(&g, ctx);
        ctx.sample(|| json!({"digraph": g.json(), "sources": "every vertex", "negative_circuit_vertices": mask_vec(g.neg_circuit_vertices(), g.n)}));
    })
}

/// order 5 with a bounded number of arcs
fn c07_space5(alphabet: &'static [i64], max_arcs: usize) -> Space {
    let total = pow(alphabet.len() as u64 + 1, 20);
    Space::new("c07.bfm5", vec![alphabet.len() as u64, max_arcs as u64], total, format!("BellmanFordMoore::distances on every weighted digraph on 0..5 with weights from {alphabet:?} and ≤ {max_arcs} arcs, every source"), move |idx, ctx| {
        // cheap pre-filter on the number of non-zero base-(k+1) digits
        let b = alphabet.len() as u64 + 1;
        let mut c = idx;
        let mut arcs = 0;
        for _ in 0..20 {
            if c % b != 0 {
                arcs += 1;
            }
            c /= b;
        }
        if arcs > max_arcs {
            ctx.skip();
            return;
        }
        let g = WG::from_code(5, idx, alphabet);
        c07_case(&g, ctx);
        ctx.sample(|| json!({"digraph": g.json(), "sources": "every vertex"}));
    })
}

pub fn c07(tier: &str, seed: u64) -> Check {
    let thorough = tier == "thorough";
    let mut spaces = vec![c07_space(1, &AM2), c07_space(2, &AM2), c07_space(3, &AM2), c07_space(4, &AM1P2), c07_space(4, &AM3), c07_space(3, &AMBIG)];
    if thorough {
        spaces.push(c07_space(4, &AM4));
        spaces.push(c07_space5(&AM1P2, 7));
    }
    spaces.push(crate::props::fam::c07_c08_family("bfm", thorough));
    spaces.push(crate::props::large::c07_c08_big("bfm", thorough));
    let report = super::report(
        "C07",
        tier,
        seed,
        "bounded-exhaustive: every AdjacencyListWeighted<isize> digraph of order ≤ 3 over weights {-2,-1,0,1,2} and of order 4 over {-1,2} (3^12; thorough adds {-1,0,2} (4^12) and {-2,-1,1,3} (5^12)) × every source. All arc counts 0..12 occur, so every residue mod 4 of the unrolled loop at every fill level (counted per residue in tags). Oracle: a negative circuit (found by exhaustive simple-cycle enumeration) reachable from s ⇒ None; no negative circuit anywhere ⇒ Some; whenever Some(d): d exact vs |V|-1 rounds of set relaxation in i128 with isize::MAX iff unreachable; with only an unreachable negative circuit either answer is accepted; non-negative inputs must agree with DijkstraDist; distances() twice must agree. Plus the structured catalogue at orders 6..11 (up to 110 arcs, so the unrolled loop runs far beyond 12 arcs) with potential-reweighted negative arcs (no negative circuit by construction) and, for the strongly connected shapes, one arc lowered until a negative circuit exists (None required from every source). Non-trivial: the digraph has a negative circuit and ≥ 3 arcs (every catalogue case counts).",
        &["weights from small alphabets plus {-2^40, 1, 2^33+3, 2^41} at order 3: no path sum approaches isize::MAX", "sources in range"],
        json!({"alphabets": {"n<=3": [-2,-1,0,1,2], "n=4": [[-1,2]]}}),
    );
    Check { spaces, report, post: None }
}

fn c08_case(g: &WG, ctx: &mut Ctx) {
    if g.neg_circuit_vertices() != 0 {
        ctx.skip();
        return;
    }
    c08_case_checked(g, ctx);
}

/// For inputs known (by enumeration or by construction) to have no negative circuit.
pub fn c08_case_checked(g: &WG, ctx: &mut Ctx) {
    let d = g.build_wi();
    ctx.exec();
    let det = || json!({"digraph": g.json()});
    let r = guarded(|| {
        let mut fw = FloydWarshall::new(&d);
        let first = fw.distances().clone();
        let m = fw.distances();
        assert!(first == *m, "FloydWarshall::distances() called twice on one object gives different matrices");
        let mut out = [[0isize; NMAX]; NMAX];
        for u in 0..g.n {
            for v in 0..g.n {
                out[u][v] = m[(u, v)];
            }
        }
        // the metrics of C18 on this very matrix (FloydWarshall outputs are part of C18's domain)
        let metrics = (m.eccentricities().copied().collect::<Vec<isize>>(), *m.diameter(), m.center(), m.periphery().collect::<Vec<usize>>(), m.is_connected());
        (out, m.order, m.dist.len(), m.infinity, metrics)
    });
    let (m, order, len, inf, metrics) = match r {
        Ok(x) => x,
        Err(e) => {
            ctx.fail(format!("FloydWarshall panicked: {e}"), det());
            return;
        }
    };
    if order != g.n || len != g.n * g.n || inf != isize::MAX {
        ctx.fail(format!("FloydWarshall matrix has order {order}, {len} entries, infinity {inf}"), det());
        return;
    }
    let mut asym = false;
    let mut via2 = false;
    for s in 0..g.n {
        let want = g.dist(1 << s);
        for v in 0..g.n {
            let wv = if want[v] == INF { isize::MAX } else { want[v] as isize };
            if m[s][v] != wv {
                ctx.fail(format!("FloydWarshall::distances()[({s}, {v})] = {}, minimum walk weight is {}", m[s][v], if want[v] == INF { "unreachable (isize::MAX)".to_string() } else { want[v].to_string() }), det());
                return;
            }
            if want[v] == INF && g.dist(1 << v)[s] != INF {
                asym = true;
            }
        }
        if m[s][s] != 0 {
            ctx.fail(format!("diagonal entry ({s},{s}) = {}", m[s][s]), det());
            return;
        }
        // row s equals Bellman-Ford-Moore from s
        ctx.exec();
        match guarded(|| BellmanFordMoore::new(&d, s).distances().map(<[isize]>::to_vec)) {
            Ok(Some(row)) => {
                if (0..g.n).any(|v| row[v] != m[s][v]) {
                    ctx.fail(format!("row {s} of FloydWarshall {:?} differs from BellmanFordMoore from {s}: {row:?}", &m[s][..g.n]), det());
                    return;
                }
            }
            Ok(None) => {
                ctx.fail(format!("BellmanFordMoore from {s} returned None on a digraph without negative circuit"), det());
                return;
            }
            Err(e) => {
                ctx.fail(format!("BellmanFordMoore panicked: {e}"), det());
                return;
            }
        }
    }
    if g.nonneg() {
        let du = g.build_wu();
        for s in 0..g.n {
            ctx.exec();
            if let Ok(dd) = guarded(|| DijkstraDist::new(&du, std::iter::once(s)).distances()) {
                let same = (0..g.n).all(|v| (dd[v] == usize::MAX && m[s][v] == isize::MAX) || (dd[v] != usize::MAX && dd[v] as i128 == m[s][v] as i128));
                if !same {
                    ctx.fail(format!("row {s} of FloydWarshall {:?} differs from DijkstraDist from {s}: {dd:?}", &m[s][..g.n]), det());
                    return;
                }
            }
        }
    }
    // DistanceMatrix metrics on the Floyd-Warshall output against their definitions
    {
        ctx.execs_n(5);
        let ecc: Vec<isize> = (0..g.n).map(|u| (0..g.n).map(|v| m[u][v]).max().unwrap()).collect();
        let diam = *ecc.iter().max().unwrap();
        let mine = *ecc.iter().min().unwrap();
        let center: Vec<usize> = (0..g.n).filter(|&u| ecc[u] == mine).collect();
        let periphery: Vec<usize> = (0..g.n).filter(|&u| ecc[u] == diam).collect();
        let connected = ecc.iter().all(|&e| e != isize::MAX);
        let want = (ecc, diam, center, periphery, connected);
        if metrics != want {
            ctx.fail(format!("DistanceMatrix metrics on the FloydWarshall output (eccentricities, diameter, center, periphery, is_connected) = {metrics:?}, definitions give {want:?}"), det());
            return;
        }
    }
    // a pair whose shortest walk has ≥ 3 arcs (improved through ≥ 2 intermediates)
    for u in 0..g.n {
        for v in 0..g.n {
            if u != v && m[u][v] != isize::MAX {
                // best weight using at most 2 arcs
                let mut best2 = if g.has[u][v] { g.w[u][v] as i128 } else { INF };
                for k in 0..g.n {
                    if g.has[u][k] && g.has[k][v] {
                        best2 = best2.min(g.w[u][k] as i128 + g.w[k][v] as i128);
                    }
                }
                if (m[u][v] as i128) < best2 {
                    via2 = true;
                }
            }
        }
    }
    if asym && via2 {
        ctx.nontrivial();
    }
}

fn c08_space(n: usize, alphabet: &'static [i64]) -> Space {
    let total = pow(alphabet.len() as u64 + 1, n * (n - 1));
    Space::new("c08.fw", vec![n as u64, alphabet.len() as u64, (alphabet.iter().sum::<i64>() + 100).unsigned_abs() % 1_000_003], total, format!("FloydWarshall::distances on every AdjacencyListWeighted<isize> digraph on 0..{n} with weights from {alphabet:?} that has no negative circuit"), move |idx, ctx| {
        let g = WG::from_code(n, idx, alphabet);
        c08_case(&g, ctx);
        ctx.sample(|| json!({"digraph": g.json(), "pairs": "all ordered pairs"}));
    })
}

pub fn c08(tier: &str, seed: u64) -> Check {
    let thorough = tier == "thorough";
    let mut spaces = vec![c08_space(1, &AM2), c08_space(2, &AM2), c08_space(3, &AM2), c08_space(4, &AM1P2), c08_space(4, &AM3), c08_space(3, &AMBIG)];
    if thorough {
        spaces.push(c08_space(4, &AM4));
    }
    spaces.push(crate::props::fam::c07_c08_family("fw", thorough));
    spaces.push(crate::props::large::c07_c08_big("fw", thorough));
    let report = super::report(
        "C08",
        tier,
        seed,
        "bounded-exhaustive: the C07 spaces filtered (by exhaustive simple-cycle enumeration on the reference) to digraphs without negative circuit; the full matrix of FloydWarshall::distances() against single-source reference distances for every source (exact, 0 on the diagonal, isize::MAX iff unreachable), row s against BellmanFordMoore from s, and on non-negative inputs against DijkstraDist from s. Plus the structured catalogue at orders 6..11 with potential-reweighted negative arcs. Non-trivial: some pair u↛v with v→u reachable (asymmetry) and some pair whose shortest walk needs ≥ 3 arcs (every catalogue case counts).",
        &["weights from small alphabets", "inputs with a negative circuit are outside the property and skipped (not counted)"],
        json!({"alphabets": {"n<=3": [-2,-1,0,1,2], "n=4": [[-1,2]]}}),
    );
    Check { spaces, report, post: None }
}

#[allow(dead_code)]
fn unused() {
    let _ = (&A1, subset_of(0, 0));
}
