//! Structured inputs at orders around and above 32 / 64 / 128 (bit-set and
//! word-size thresholds of any packed representation), for every algorithm
//! and operator. A fixed catalogue (shape × order × listed arguments),
//! enumerated completely; references are the generic set-based ones of refm.rs.

use crate::core::{guarded, Ctx, Space};
use crate::props::trav::{bfs_case, dfs_case, johnson_check, tarjan_check};
use crate::refm::Abs;
use crate::reps::*;
use graaf::algo::predecessor_tree::PredecessorTree;
use graaf::*;
use serde_json::json;
use std::collections::{BTreeMap, BTreeSet};
use std::sync::Arc;

pub const BIG_Q: [usize; 6] = [12, 33, 34, 65, 100, 257];
pub const BIG_T: [usize; 16] = [12, 17, 31, 32, 33, 34, 35, 63, 64, 65, 66, 70, 129, 130, 257, 300];

pub fn big_orders(thorough: bool) -> Vec<usize> {
    if thorough { BIG_T.to_vec() } else { BIG_Q.to_vec() }
}

/// sparse shapes that make sense at any order n ≥ 6
pub fn big_shapes(n: usize) -> Vec<(String, Abs)> {
    let mut v: Vec<(String, Abs)> = Vec::new();
    let mut add = |name: &str, arcs: Vec<(usize, usize)>| v.push((name.to_string(), Abs::from_arcs(n, arcs.into_iter().filter(|&(a, b)| a != b && a < n && b < n))));
    add("path", (0..n - 1).map(|u| (u, u + 1)).collect());
    add("reverse path", (0..n - 1).map(|u| (u + 1, u)).collect());
    add("circuit", (0..n).map(|u| (u, (u + 1) % n)).collect());
    add("cycle", (0..n).flat_map(|u| [(u, (u + 1) % n), ((u + 1) % n, u)]).collect());
    add("star out", (1..n).map(|u| (0, u)).collect());
    add("star both", (1..n).flat_map(|u| [(0, u), (u, 0)]).collect());
    add("binary tree", (1..n).map(|u| ((u - 1) / 2, u)).collect());
    add("binary tree with back arcs to the root", (1..n).flat_map(|u| [((u - 1) / 2, u), (u, 0)]).collect());
    add("band 2", (0..n).flat_map(|u| [(u, (u + 1) % n), (u, (u + 2) % n)]).collect());
    add("path with hops of 32", (0..n).flat_map(|u| [(u, u + 1), (u, u + 32)]).collect());
    add("path with hops of 64 and back arcs of 31", (0..n).flat_map(|u| [(u, u + 1), (u, u + 64), (u + 31, u)]).collect());
    add("zigzag i -> i^32 -> ...", (0..n).flat_map(|u| [(u, u ^ 32), (u ^ 32, (u ^ 32) + 1)]).collect());
    add("two circuits sharing vertex 0", {
        let h = n / 2;
        let mut a: Vec<(usize, usize)> = (0..h).map(|u| (u, u + 1)).collect();
        a.push((h, 0));
        a.push((0, h + 1));
        a.extend((h + 1..n - 1).map(|u| (u, u + 1)));
        a.push((n - 1, 0));
        a
    });
    add("descending chain with shortcuts to 0", (1..n).flat_map(|u| [(u, u - 1), (u, 0)]).collect());
    add("three components", (0..n).filter(|u| (u + 1) % (n / 3).max(2) != 0).map(|u| (u, u + 1)).collect());
    if n <= 40 {
        let pairs = Abs::pairs(n);
        add("complete", pairs.clone());
        add("transitive tournament", pairs.iter().copied().filter(|&(u, v)| u < v).collect());
        add("mod 3 pattern", pairs.iter().copied().filter(|&(u, v)| (u * 7 + v * 3) % 3 == 0).collect());
    }
    v
}

fn interesting(n: usize) -> Vec<usize> {
    let mut s: BTreeSet<usize> = [0, 1, n / 2, 31, 32, 33, 63, 64, 65, n - 2, n - 1].into_iter().filter(|&x| x < n).collect();
    s.insert(n - 1);
    s.into_iter().collect()
}

fn source_sets(n: usize) -> Vec<Vec<usize>> {
    let mut s: Vec<Vec<usize>> = interesting(n).into_iter().map(|v| vec![v]).collect();
    s.push(vec![]);
    s.push(vec![0, n - 1]);
    s.push(vec![n - 1, 0]);
    if n > 33 {
        s.push(vec![1, 33]);
        s.push(vec![33, 1]);
    }
    s.push((0..n).collect());
    s
}

fn cases(thorough: bool) -> Arc<Vec<(usize, usize)>> {
    let mut c = Vec::new();
    for n in big_orders(thorough) {
        for f in 0..big_shapes(n).len() {
            c.push((n, f));
        }
    }
    Arc::new(c)
}

pub fn trav_big(which: &'static str, thorough: bool) -> Space {
    let cs = cases(thorough);
    let kind = match which {
        "bfs" => "c04.big",
        "dfs" => "c06.big",
        "tarjan" => "c09.big",
        _ => "c10.big",
    };
    Space::new(kind, vec![u64::from(thorough)], cs.len() as u64, format!("{which} on structured sparse (and, up to order 40, dense) digraphs at orders {:?} — around the 32 / 64 / 128 thresholds — in five representations; sources: the vertices {{0, 1, n/2, 31..33, 63..65, n-2, n-1}}, ∅, pairs, all", big_orders(thorough)), move |idx, ctx| {
        let (n, f) = cs[idx as usize];
        let (name, abs) = big_shapes(n).swap_remove(f);
        fn go<R: Rep>(which: &str, abs: &Abs, n: usize, ctx: &mut Ctx) {
            let d: R = mk::<R>(abs);
            match which {
                "bfs" => {
                    for s in source_sets(n) {
                        bfs_case(abs, &d, &s, ctx);
                    }
                }
                "dfs" => {
                    for s in source_sets(n) {
                        dfs_case(abs, &d, &s, ctx);
                    }
                }
                _ => tarjan_check(abs, &d, ctx),
            }
        }
        if which == "johnson" {
            // circuits explode on dense shapes: the sparse ones only
            // only shapes whose number of circuits is at most linear in n
            // (and whose number of simple paths is polynomial, so that the reference enumeration
            // stays cheap: "path with hops of 32" is acyclic but has exponentially many simple paths)
            const FEW: [&str; 11] = ["path", "reverse path", "circuit", "cycle", "star out", "star both", "binary tree", "binary tree with back arcs to the root", "two circuits sharing vertex 0", "three components", "descending chain with shortcuts to 0"];
            if FEW.contains(&name.as_str()) {
                johnson_check(&abs, ctx);
            } else {
                ctx.skip();
                return;
            }
        } else {
            go::<AL>(which, &abs, n, ctx);
            go::<AX>(which, &abs, n, ctx);
            if n <= 40 || which == "tarjan" {
                go::<AM>(which, &abs, n, ctx);
                go::<EL>(which, &abs, n, ctx);
                go::<WU>(which, &abs, n, ctx);
            }
        }
        ctx.nontrivial();
        ctx.sample(|| json!({"order": n, "shape": name}));
    })
}

// ------------------------------------------------------------------ C03 / C05 at large orders

fn weights_on(abs: &Abs, pat: usize) -> Abs {
    let mut a = abs.clone();
    let n = abs.n();
    a.w = abs
        .a
        .iter()
        .map(|&(u, v)| {
            let w: i128 = match pat {
                0 => 1,
                1 => ((u * 7 + v * 3) % 5) as i128,
                _ => {
                    if v > u {
                        ((v - u) * (v - u)) as i128
                    } else {
                        1 + ((n - u) % 4) as i128
                    }
                }
            };
            ((u, v), w)
        })
        .collect();
    a
}

fn tree_ok(abs: &Abs, pred: &[Option<usize>], srcs: &BTreeSet<usize>, dist: &BTreeMap<usize, i128>) -> Result<(), String> {
    if pred.len() != abs.n() {
        return Err(format!("tree has {} entries for order {}", pred.len(), abs.n()));
    }
    for v in 0..abs.n() {
        match pred[v] {
            None => {
                if !srcs.contains(&v) && dist.contains_key(&v) {
                    return Err(format!("reachable non-source vertex {v} has no predecessor"));
                }
            }
            Some(u) => {
                if srcs.contains(&v) {
                    return Err(format!("source {v} has predecessor {u}"));
                }
                let (Some(&dv), Some(&du)) = (dist.get(&v), dist.get(&u)) else { return Err(format!("vertex {v} (predecessor {u}) is unreachable or its predecessor is")) };
                if !abs.has(u, v) || du + abs.weight(u, v) != dv {
                    return Err(format!("predecessor {u} of {v} is not a shortest-path-tree arc"));
                }
            }
        }
    }
    Ok(())
}

fn path_ok(abs: &Abs, path: &[usize], srcs: &BTreeSet<usize>, targets: &dyn Fn(usize) -> bool, dist: &BTreeMap<usize, i128>) -> Result<(), String> {
    let (Some(&first), Some(&last)) = (path.first(), path.last()) else { return Err("empty path".into()) };
    if !srcs.contains(&first) {
        return Err(format!("path starts at {first}, not a source"));
    }
    if !targets(last) {
        return Err(format!("path ends at {last}, not a target"));
    }
    let mut w = 0;
    for p in path.windows(2) {
        if !abs.has(p[0], p[1]) {
            return Err(format!("{}->{} is not an arc", p[0], p[1]));
        }
        w += abs.weight(p[0], p[1]);
    }
    let best = dist.iter().filter(|(&v, _)| targets(v)).map(|(_, &d)| d).min().unwrap();
    if w != best {
        return Err(format!("path weight {w}, minimum over targets is {best}"));
    }
    Ok(())
}

pub fn c05_big(thorough: bool) -> Space {
    let cs = cases(thorough);
    Space::new("c05.big", vec![u64::from(thorough)], cs.len() as u64 * 3, format!("BfsPred (unit weights, AdjacencyList + AdjacencyMatrix) and DijkstraPred (two weight patterns) on structured digraphs at orders {:?}: predecessors(), shortest_path to every single vertex and to three predicates, cycles()", big_orders(thorough)), move |idx, ctx| {
        let (n, f) = cs[(idx / 3) as usize];
        let pat = (idx % 3) as usize;
        let (name, shape) = big_shapes(n).swap_remove(f);
        let abs = weights_on(&shape, pat);
        let wu = mk::<WU>(&abs);
        let det = |s: &[usize]| json!({"order": n, "shape": name, "weight_pattern": pat, "sources_in_order": s});
        let preds: [(&str, Box<dyn Fn(usize) -> bool>); 3] = [("v % 3 == 0", Box::new(|v| v % 3 == 0)), ("v >= n - 2", Box::new(move |v| v + 2 >= n)), ("v == 33 || v == 2", Box::new(|v| v == 33 || v == 2))];
        let mut srcsets: Vec<Vec<usize>> = vec![vec![0], vec![n - 1], vec![n / 2], vec![0, n - 1], vec![n - 1, 1]];
        if n > 35 {
            srcsets.push(vec![35]);
        }
        for s in &srcsets {
            let sset: BTreeSet<usize> = s.iter().copied().collect();
            let dist = abs.dist(&sset);
            // --- Dijkstra side
            ctx.exec();
            match guarded(|| DijkstraPred::new(&wu, s.clone().into_iter()).predecessors().pred) {
                Err(e) => {
                    ctx.fail(format!("DijkstraPred::predecessors panicked: {e}"), det(s));
                    continue;
                }
                Ok(p) => {
                    if let Err(e) = tree_ok(&abs, &p, &sset, &dist) {
                        ctx.fail(format!("DijkstraPred::predecessors(): {e}"), det(s));
                        continue;
                    }
                }
            }
            for t in 0..n {
                ctx.exec();
                match guarded(|| DijkstraPred::new(&wu, s.clone().into_iter()).shortest_path(|v| v == t)) {
                    Err(e) => ctx.fail(format!("DijkstraPred::shortest_path(v == {t}) panicked: {e}"), det(s)),
                    Ok(None) => {
                        if dist.contains_key(&t) {
                            ctx.fail(format!("DijkstraPred::shortest_path(v == {t}) returned None but {t} is reachable at distance {}", dist[&t]), det(s));
                        }
                    }
                    Ok(Some(p)) => {
                        if !dist.contains_key(&t) {
                            ctx.fail(format!("DijkstraPred::shortest_path(v == {t}) returned {p:?} but {t} is unreachable"), det(s));
                        } else if let Err(e) = path_ok(&abs, &p, &sset, &|v| v == t, &dist) {
                            ctx.fail(format!("DijkstraPred::shortest_path(v == {t}) returned {p:?}: {e}"), det(s));
                        }
                    }
                }
            }
            for (pn, pf) in &preds {
                ctx.exec();
                let any = dist.keys().any(|&v| pf(v));
                match guarded(|| DijkstraPred::new(&wu, s.clone().into_iter()).shortest_path(|v| pf(v))) {
                    Err(e) => ctx.fail(format!("DijkstraPred::shortest_path({pn}) panicked: {e}"), det(s)),
                    Ok(None) => {
                        if any {
                            ctx.fail(format!("DijkstraPred::shortest_path({pn}) returned None although a target is reachable"), det(s));
                        }
                    }
                    Ok(Some(p)) => {
                        if !any {
                            ctx.fail(format!("DijkstraPred::shortest_path({pn}) returned {p:?} although no target is reachable"), det(s));
                        } else if let Err(e) = path_ok(&abs, &p, &sset, &|v| pf(v), &dist) {
                            ctx.fail(format!("DijkstraPred::shortest_path({pn}) returned {p:?}: {e}"), det(s));
                        }
                    }
                }
            }
            // --- BFS side (unit weights) on two representations
            if pat == 0 {
                fn bfs_side<R: Rep>(abs: &Abs, s: &[usize], sset: &BTreeSet<usize>, dist: &BTreeMap<usize, i128>, n: usize, ctx: &mut Ctx, det: &dyn Fn(&[usize]) -> serde_json::Value) {
                    let d: R = mk::<R>(abs);
                    ctx.exec();
                    match guarded(|| BfsPred::new(&d, s.to_vec().into_iter()).predecessors().pred) {
                        Err(e) => {
                            ctx.fail(format!("BfsPred::predecessors over {} panicked: {e}", R::NAME), det(s));
                            return;
                        }
                        Ok(p) => {
                            if let Err(e) = tree_ok(abs, &p, sset, dist) {
                                ctx.fail(format!("BfsPred::predecessors() over {}: {e}", R::NAME), det(s));
                                return;
                            }
                        }
                    }
                    for t in 0..n {
                        ctx.exec();
                        match guarded(|| BfsPred::new(&d, s.to_vec().into_iter()).shortest_path(|v| v == t)) {
                            Err(e) => ctx.fail(format!("BfsPred::shortest_path(v == {t}) over {} panicked: {e}", R::NAME), det(s)),
                            Ok(None) => {
                                if dist.contains_key(&t) {
                                    ctx.fail(format!("BfsPred::shortest_path(v == {t}) over {} returned None but {t} is reachable at distance {}", R::NAME, dist[&t]), det(s));
                                }
                            }
                            Ok(Some(p)) => {
                                if !dist.contains_key(&t) {
                                    ctx.fail(format!("BfsPred::shortest_path(v == {t}) over {} returned {p:?} but {t} is unreachable", R::NAME), det(s));
                                } else if let Err(e) = path_ok(abs, &p, sset, &|v| v == t, dist) {
                                    ctx.fail(format!("BfsPred::shortest_path(v == {t}) over {} returned {p:?}: {e}", R::NAME), det(s));
                                }
                            }
                        }
                    }
                    ctx.exec();
                    match guarded(|| BfsPred::new(&d, s.to_vec().into_iter()).cycles()) {
                        Err(e) => ctx.fail(format!("BfsPred::cycles over {} panicked: {e}", R::NAME), det(s)),
                        Ok(cs) => {
                            for c in cs {
                                let distinct: BTreeSet<usize> = c.iter().copied().collect();
                                if c.len() < 2 || distinct.len() != c.len() || !(0..c.len()).all(|i| abs.has(c[i], c[(i + 1) % c.len()])) {
                                    ctx.fail(format!("BfsPred::cycles() over {} returned {c:?}, not an elementary cycle", R::NAME), det(s));
                                    break;
                                }
                            }
                        }
                    }
                }
                bfs_side::<AL>(&abs, s, &sset, &dist, n, ctx, &det);
                bfs_side::<AX>(&abs, s, &sset, &dist, n, ctx, &det);
            }
        }
        ctx.nontrivial();
        ctx.sample(|| json!({"order": n, "shape": name, "weight_pattern": pat}));
    })
}

pub fn c03_big(thorough: bool) -> Space {
    let cs = cases(thorough);
    Space::new("c03.big", vec![u64::from(thorough)], cs.len() as u64 * 3, format!("Dijkstra / DijkstraDist / distances on structured digraphs at orders {:?} with three weight patterns", big_orders(thorough)), move |idx, ctx| {
        let (n, f) = cs[(idx / 3) as usize];
        let pat = (idx % 3) as usize;
        let (name, shape) = big_shapes(n).swap_remove(f);
        let abs = weights_on(&shape, pat);
        let wu = mk::<WU>(&abs);
        for s in source_sets(n) {
            let sset: BTreeSet<usize> = s.iter().copied().collect();
            let dist = abs.dist(&sset);
            let det = || json!({"order": n, "shape": name, "weight_pattern": pat, "sources_in_order": s});
            ctx.execs_n(3);
            let r = guarded(|| (Dijkstra::new(&wu, s.clone().into_iter()).collect::<Vec<usize>>(), DijkstraDist::new(&wu, s.clone().into_iter()).collect::<Vec<(usize, usize)>>(), DijkstraDist::new(&wu, s.clone().into_iter()).distances()));
            match r {
                Err(e) => ctx.fail(format!("Dijkstra panicked: {e}"), det()),
                Ok((seq, seqd, dv)) => {
                    let want: Vec<usize> = (0..n).map(|v| dist.get(&v).map_or(usize::MAX, |&x| x as usize)).collect();
                    if dv != want {
                        ctx.fail(format!("DijkstraDist::distances() differs from the shortest distances at vertices {:?}", (0..n).filter(|&v| dv.get(v) != Some(&want[v])).take(5).collect::<Vec<_>>()), det());
                        continue;
                    }
                    let set: BTreeSet<usize> = seq.iter().copied().collect();
                    let mono = seq.windows(2).all(|w| dist.get(&w[0]) <= dist.get(&w[1]));
                    if set.len() != seq.len() || set != dist.keys().copied().collect() || !mono {
                        ctx.fail(format!("Dijkstra yielded {} items, {} distinct, reachable {}; non-decreasing: {mono}", seq.len(), set.len(), dist.len()), det());
                        continue;
                    }
                    let setd: BTreeSet<usize> = seqd.iter().map(|x| x.0).collect();
                    let exact = seqd.iter().all(|&(v, w)| dist.get(&v) == Some(&(w as i128)));
                    let monod = seqd.windows(2).all(|w| w[0].1 <= w[1].1);
                    if setd.len() != seqd.len() || setd != set || !exact || !monod {
                        ctx.fail(format!("DijkstraDist items wrong: {} items, exact distances: {exact}, non-decreasing: {monod}", seqd.len()), det());
                    }
                }
            }
        }
        ctx.nontrivial();
        ctx.sample(|| json!({"order": n, "shape": name, "weight_pattern": pat}));
    })
}

// ------------------------------------------------------------------ C19 at large lengths

pub fn c19_big(thorough: bool) -> Space {
    let ords = big_orders(thorough);
    let total = ords.len() as u64 * 7;
    Space::new("c19.big", vec![u64::from(thorough)], total, format!("PredecessorTree::search / search_by on structured predecessor vectors of lengths {ords:?} (chains, chains into cycles, self-references, hops of 32, pseudo-random maps), every start × every target vertex"), move |idx, ctx| {
        let n = ords[(idx / 7) as usize];
        let pat = idx % 7;
        let pred: Vec<Option<usize>> = (0..n)
            .map(|i| match pat {
                0 => i.checked_sub(1),
                1 => Some((i + 1) % n),
                2 => Some(i),
                3 => if i + 32 < n { Some(i + 32) } else { None },
                4 => Some((i * 7 + 3) % n),
                5 => if i == 0 { Some(n / 2) } else { Some(i - 1) },
                _ => if i % 5 == 0 { None } else { Some((i ^ 32) % n) },
            })
            .collect();
        let tree = PredecessorTree::from(pred.clone());
        let reference = |s: usize, tgt: &dyn Fn(usize, Option<usize>) -> bool| -> Option<Vec<usize>> {
            let mut path = vec![s];
            let mut seen = BTreeSet::from([s]);
            let mut cur = s;
            loop {
                if tgt(cur, pred[cur]) {
                    return Some(path);
                }
                match pred[cur] {
                    None => return None,
                    Some(p) => {
                        if !seen.insert(p) {
                            return None;
                        }
                        path.push(p);
                        cur = p;
                    }
                }
            }
        };
        for s in 0..n {
            for t in 0..n {
                ctx.exec();
                let want = reference(s, &|v, _| v == t);
                match guarded(|| tree.search(s, t)) {
                    Err(e) => ctx.fail(format!("search({s}, {t}) panicked: {e}"), json!({"length": n, "pattern": pat})),
                    Ok(got) => {
                        if got != want {
                            ctx.fail(format!("search({s}, {t}) on a vector of length {n} (pattern {pat}) = {:?}; following predecessor links gives {:?}", got.as_ref().map(|p| (p.len(), p.last().copied())), want.as_ref().map(|p| (p.len(), p.last().copied()))), json!({"length": n, "pattern": pat, "pred": pred}));
                            return;
                        }
                    }
                }
            }
            ctx.exec();
            let want = reference(s, &|_, p| p.is_none());
            if guarded(|| tree.search_by(s, |_, p| p.is_none())) != Ok(want) {
                ctx.fail(format!("search_by({s}, no predecessor) on a vector of length {n} (pattern {pat}) disagrees with link following"), json!({"length": n, "pattern": pat, "pred": pred}));
                return;
            }
        }
        ctx.nontrivial();
        ctx.sample(|| json!({"length": n, "pattern": pat, "pred_prefix": pred.iter().take(8).collect::<Vec<_>>()}));
    })
}

// ------------------------------------------------------------------ C11 / C16 / C12 at large orders

pub fn c11_big(thorough: bool) -> Space {
    let cs = cases(thorough);
    Space::new("c11.big", vec![u64::from(thorough)], cs.len() as u64, format!("complement / converse / union (with another shape of the same order and with a smaller digraph) / involutions on structured digraphs at orders {:?} in AdjacencyList, AdjacencyMap, AdjacencyMatrix, EdgeList (worker threads 3)", big_orders(thorough)), move |idx, ctx| {
        let (n, f) = cs[idx as usize];
        let shapes = big_shapes(n);
        let (name, abs) = &shapes[f];
        let other = &shapes[(f + 5) % shapes.len()].1;
        let small = Abs::from_arcs(7, [(0, 6), (6, 5), (5, 0), (2, 3)]);
        crate::spacesx::par(3);
        fn go<R: crate::props::ops::OpRep>(abs: &Abs, other: &Abs, small: &Abs, name: &str, ctx: &mut Ctx) {
            let det = || json!({"rep": R::NAME, "order": abs.n(), "shape": name});
            let d: R = mk::<R>(abs);
            let (o, s): (R, R) = (mk::<R>(other), mk::<R>(small));
            macro_rules! expect {
                ($what:expr, $real:expr, $want:expr) => {{
                    ctx.exec();
                    match guarded(|| $real) {
                        Err(e) => ctx.fail(format!("{}::{} panicked: {e}", R::NAME, $what), det()),
                        Ok(r) => match observe(&r) {
                            Ok(ob) if same::<R>(&ob, &$want) => {}
                            Ok(ob) => {
                                let w = $want;
                                let missing: Vec<_> = w.a.difference(&ob.a).take(4).collect();
                                let extra: Vec<_> = ob.a.difference(&w.a).take(4).collect();
                                ctx.fail(format!("{}::{} differs from its set definition: order {} (want {}), missing {missing:?}, extra {extra:?}", R::NAME, $what, ob.n(), w.n()), det());
                            }
                            Err(e) => ctx.fail(format!("{}::{} returned an invalid digraph: {e}", R::NAME, $what), det()),
                        },
                    }
                }};
            }
            expect!("complement()", d.complement(), abs.complement());
            expect!("complement().complement()", d.complement().complement(), abs.clone());
            expect!("converse()", d.converse(), abs.converse());
            expect!("union(other shape)", d.union(&o), abs.union(other));
            expect!("union(smaller digraph)", d.union(&s), abs.union(small));
            expect!("smaller.union(self)", s.union(&d), abs.union(small));
            expect!("union(self)", d.union(&d), abs.clone());
        }
        go::<AL>(abs, other, &small, name, ctx);
        go::<AM>(abs, other, &small, name, ctx);
        go::<AX>(abs, other, &small, name, ctx);
        go::<EL>(abs, other, &small, name, ctx);
        ctx.nontrivial();
        ctx.sample(|| json!({"order": n, "shape": name}));
    })
    .procs()
}

pub fn c16_big(thorough: bool) -> Space {
    let cs = cases(thorough);
    Space::new("c16.big", vec![u64::from(thorough)], cs.len() as u64, format!("all conversions and round trips on structured digraphs at orders {:?}", big_orders(thorough)), move |idx, ctx| {
        let (n, f) = cs[idx as usize];
        let (name, abs) = big_shapes(n).swap_remove(f);
        crate::props::gens::conv_all_pub(&abs, ctx);
        ctx.nontrivial();
        ctx.sample(|| json!({"order": n, "shape": name}));
    })
}

pub fn c18_big() -> Space {
    static ORD: [usize; 8] = [5, 8, 9, 16, 17, 32, 33, 65];
    Space::new("c18.big", vec![], ORD.len() as u64 * 4, format!("DistanceMatrix metrics on structured matrices of orders {ORD:?}: distinct entries, one infinite row, ties for minimum and maximum, infinity only on the diagonal"), move |idx, ctx| {
        let n = ORD[(idx / 4) as usize];
        let pat = idx % 4;
        let inf = usize::MAX;
        let entries: Vec<usize> = (0..n * n)
            .map(|i| {
                let (u, v) = (i / n, i % n);
                match pat {
                    0 => i * 3 + 1,
                    1 => if u == n / 2 { inf } else { (u + v) % 7 },
                    2 => if u % 2 == 0 { (v % 3) + 4 } else { 6 - (v % 3) },
                    _ => if u == v { inf } else { 1 + (u * v) % 5 },
                }
            })
            .collect();
        let r = guarded(|| {
            let mut m = DistanceMatrix::new(n, inf);
            for u in 0..n {
                for v in 0..n {
                    m[(u, v)] = entries[u * n + v];
                }
            }
            (m.dist.clone(), m.eccentricities().copied().collect::<Vec<usize>>(), *m.diameter(), m.center(), m.periphery().collect::<Vec<usize>>(), m.is_connected())
        });
        ctx.execs_n(6);
        let ecc: Vec<usize> = (0..n).map(|u| *entries[u * n..(u + 1) * n].iter().max().unwrap()).collect();
        let diam = *ecc.iter().max().unwrap();
        let mine = *ecc.iter().min().unwrap();
        let want = (entries.clone(), ecc.clone(), diam, (0..n).filter(|&u| ecc[u] == mine).collect::<Vec<_>>(), (0..n).filter(|&u| ecc[u] == diam).collect::<Vec<_>>(), ecc.iter().all(|&e| e != inf));
        match r {
            Err(e) => ctx.fail(format!("DistanceMatrix of order {n} panicked: {e}"), json!({"order": n, "pattern": pat})),
            Ok(got) => {
                if got != want {
                    ctx.fail(format!("DistanceMatrix of order {n} (pattern {pat}): flat contents / eccentricities / diameter / center / periphery / is_connected differ from their definitions: got ecc {:?}.., want {:?}..", &got.1[..n.min(6)], &want.1[..n.min(6)]), json!({"order": n, "pattern": pat}));
                }
            }
        }
        ctx.nontrivial();
        ctx.sample(|| json!({"order": n, "pattern": pat}));
    })
}

// ------------------------------------------------------------------ C07 / C08 at large orders

fn potentials(abs: &Abs, pat: usize) -> Abs {
    // non-negative base weights, then w' = w + p(u) - p(v): circuits keep their (non-negative) weight
    let mut a = weights_on(abs, 1 + pat % 2);
    for (&(u, v), w) in a.w.iter_mut() {
        *w += (u as i128 * 5 % 11) - (v as i128 * 5 % 11);
    }
    a
}

/// Array-based single-source minimum walk weights (in-place relaxation rounds with early exit,
/// i128): the reference for the large weighted cases, which have no negative circuit by
/// construction. O(rounds × arcs); the set-based `Abs::dist` is too slow beyond order ~100.
fn fast_dist(n: usize, arcs: &[(usize, usize, i128)], s: usize) -> Vec<Option<i128>> {
    let mut d: Vec<Option<i128>> = vec![None; n];
    d[s] = Some(0);
    for _ in 0..=n {
        let mut changed = false;
        for &(u, v, w) in arcs {
            if let Some(du) = d[u] {
                let c = du + w;
                if d[v].map_or(true, |x| c < x) {
                    d[v] = Some(c);
                    changed = true;
                }
            }
        }
        if !changed {
            break;
        }
    }
    d
}

pub fn c07_c08_big(which: &'static str, thorough: bool) -> Space {
    // BellmanFordMoore also at orders beyond 255 (a round counter in a narrow type); FloydWarshall
    // up to 130 (257 thorough)
    let ords: Vec<usize> = match (which == "bfm", thorough) {
        (true, false) => vec![12, 33, 34, 65, 257],
        (true, true) => vec![12, 17, 32, 33, 34, 64, 65, 66, 257, 300],
        (false, false) => vec![12, 33, 34, 65, 130],
        (false, true) => vec![12, 17, 32, 33, 34, 64, 65, 66, 130, 257],
    };
    let mut cs = Vec::new();
    for &n in &ords {
        for f in 0..big_shapes(n).len() {
            cs.push((n, f));
        }
    }
    let cs = Arc::new(cs);
    Space::new(if which == "bfm" { "c07.big" } else { "c08.big" }, vec![u64::from(thorough)], cs.len() as u64 * 2, format!("{} on structured digraphs at orders {ords:?} with potential-reweighted (negative) arcs, two weight patterns; no negative circuit by construction", if which == "bfm" { "BellmanFordMoore from the sources {0, 1, n/2, 31..33, 63..65, n-2, n-1}" } else { "FloydWarshall, all pairs, and its DistanceMatrix metrics" }), move |idx, ctx| {
        let (n, f) = cs[(idx / 2) as usize];
        let pat = (idx % 2) as usize;
        let (name, shape) = big_shapes(n).swap_remove(f);
        let abs = potentials(&shape, pat);
        let d = mk::<WI>(&abs);
        let det = |s: usize| json!({"order": n, "shape": name, "weight_pattern": pat, "source": s});
        let warcs: Vec<(usize, usize, i128)> = abs.a.iter().map(|&(u, v)| (u, v, abs.weight(u, v))).collect();
        if which == "bfm" {
            for s in interesting(n) {
                ctx.exec();
                let dist = fast_dist(n, &warcs, s);
                let want: Vec<isize> = (0..n).map(|v| dist[v].map_or(isize::MAX, |x| x as isize)).collect();
                match guarded(|| BellmanFordMoore::new(&d, s).distances().map(<[isize]>::to_vec)) {
                    Err(e) => ctx.fail(format!("BellmanFordMoore panicked: {e}"), det(s)),
                    Ok(None) => ctx.fail("BellmanFordMoore::distances() returned None on a digraph without negative circuit", det(s)),
                    Ok(Some(g)) => {
                        if g != want {
                            ctx.fail(format!("BellmanFordMoore::distances() differs from the minimum walk weights at vertices {:?}", (0..n).filter(|&v| g[v] != want[v]).take(5).collect::<Vec<_>>()), det(s));
                        }
                    }
                }
            }
        } else {
            ctx.exec();
            let r = guarded(|| {
                let mut fw = FloydWarshall::new(&d);
                let m = fw.distances();
                (m.dist.clone(), m.order, m.eccentricities().copied().collect::<Vec<isize>>(), *m.diameter(), m.center(), m.periphery().collect::<Vec<usize>>(), m.is_connected())
            });
            match r {
                Err(e) => ctx.fail(format!("FloydWarshall panicked: {e}"), det(0)),
                Ok((flat, order, ecc, diam, center, periphery, connected)) => {
                    if order != n || flat.len() != n * n {
                        ctx.fail("FloydWarshall matrix has the wrong shape", det(0));
                        return;
                    }
                    for s in 0..n {
                        let dist = fast_dist(n, &warcs, s);
                        for v in 0..n {
                            let w = dist[v].map_or(isize::MAX, |x| x as isize);
                            if flat[s * n + v] != w {
                                ctx.fail(format!("FloydWarshall::distances()[({s}, {v})] = {}, minimum walk weight is {w}", flat[s * n + v]), det(s));
                                return;
                            }
                        }
                    }
                    let wecc: Vec<isize> = (0..n).map(|u| *flat[u * n..(u + 1) * n].iter().max().unwrap()).collect();
                    let wd = *wecc.iter().max().unwrap();
                    let wm = *wecc.iter().min().unwrap();
                    let want = (wecc.clone(), wd, (0..n).filter(|&u| wecc[u] == wm).collect::<Vec<_>>(), (0..n).filter(|&u| wecc[u] == wd).collect::<Vec<_>>(), wecc.iter().all(|&e| e != isize::MAX));
                    if (ecc, diam, center, periphery, connected) != want {
                        ctx.fail("DistanceMatrix metrics on the FloydWarshall output differ from their definitions", det(0));
                    }
                }
            }
        }
        ctx.nontrivial();
        ctx.sample(|| json!({"order": n, "shape": name, "weight_pattern": pat}));
    })
}

// ------------------------------------------------------------------ C12 / C15 at large orders

pub fn c12_big(thorough: bool) -> Space {
    // plus order 258: the star's centre has degree 257, which a degree kept in 8 bits would take
    // for the leaves' degree 1
    let cs = {
        let mut c: Vec<(usize, usize)> = cases(thorough).to_vec();
        for f in 0..big_shapes(258).len() {
            c.push((258, f));
        }
        Arc::new(c)
    };
    Space::new("c12.big", vec![u64::from(thorough)], cs.len() as u64, format!("the eight unary predicates on structured digraphs at orders {:?} and 258 in five representations, and the three binary relations between each shape, its converse, its symmetric closure and another shape of the same order", big_orders(thorough)), move |idx, ctx| {
        let (n, f) = cs[idx as usize];
        let shapes = big_shapes(n);
        let (name, abs) = &shapes[f];
        let other = &shapes[(f + 3) % shapes.len()].1;
        crate::spacesx::par(3);
        fn go<R: Rep>(abs: &Abs, other: &Abs, name: &str, ctx: &mut Ctx) {
            let d: R = mk::<R>(abs);
            crate::props::ops::unary_predicates(abs, &d, ctx, &|| json!({"shape": name}));
            let sym = abs.union(&abs.converse());
            for (label, o) in [("its converse", abs.converse()), ("its symmetric closure", sym), ("another shape", other.clone()), ("itself", abs.clone())] {
                let od: R = mk::<R>(&o);
                let det = || json!({"rep": R::NAME, "order": abs.n(), "shape": name, "other": label});
                let want = (abs.is_subdigraph_of(&o), o.is_subdigraph_of(abs), abs.is_subdigraph_of(&o) && abs.v == o.v);
                ctx.execs_n(3);
                match guarded(|| (d.is_subdigraph(&od), d.is_superdigraph(&od), d.is_spanning_subdigraph(&od))) {
                    Ok(g) if g == want => {}
                    Ok(g) => ctx.fail(format!("{}: (is_subdigraph, is_superdigraph, is_spanning_subdigraph) against {label} = {g:?}, definitions give {want:?}", R::NAME), det()),
                    Err(e) => ctx.fail(format!("{}: a binary relation panicked: {e}", R::NAME), det()),
                }
            }
        }
        go::<AL>(abs, other, name, ctx);
        go::<AM>(abs, other, name, ctx);
        go::<AX>(abs, other, name, ctx);
        go::<EL>(abs, other, name, ctx);
        go::<WU>(abs, other, name, ctx);
        ctx.nontrivial();
        ctx.sample(|| json!({"order": n, "shape": name}));
    })
    .procs()
}

pub fn c15_big(thorough: bool) -> Space {
    let ords: Vec<usize> = if thorough { vec![9, 12, 16, 17, 23, 31, 32, 33, 34, 40, 64, 65, 66, 100] } else { vec![9, 12, 17, 33, 40, 65] };
    let seeds: u64 = if thorough { 8 } else { 3 };
    let n_ords = ords.len() as u64;
    Space::new("c15.big", vec![u64::from(thorough)], n_ords * seeds, format!("the three seeded generators at orders {ords:?} × {seeds} seeds in four representations (worker threads 3): validity, p = 0 / p = 1 extremes, exact repetition"), move |idx, ctx| {
        let n = ords[(idx % n_ords) as usize];
        let seed = [0u64, 1, u64::MAX, 7, 1 << 32, 12345, 99, 3][(idx / n_ords) as usize];
        crate::spacesx::par(3);
        crate::props::gens::rand_checks_pub(n, seed, ctx);
        ctx.nontrivial();
        ctx.sample(|| json!({"order": n, "seed": seed}));
    })
    .procs()
}
