//! Index-addressable enumerators.

use crate::refm::Abs;
use graaf::verif_rt::{set_parallelism, Parallelism};
use std::collections::BTreeSet;

/// Number of digraphs on `0..n`.
pub fn dcount(n: usize) -> u64 {
    1u64 << (n * n.saturating_sub(1))
}

/// All vertex sets V ⊆ pool with 1 ≤ |V| ≤ k, each with every arc set on V.
#[derive(Clone, Debug)]
pub struct SparseSpace {
    pub sets: Vec<(Vec<usize>, u64)>,
    pub total: u64,
}

impl SparseSpace {
    pub fn new(pool: &[usize], k: usize) -> Self {
        let mut sets = Vec::new();
        let mut total = 0u64;
        for m in 1u64..(1 << pool.len()) {
            let vs: Vec<usize> = (0..pool.len()).filter(|i| m >> i & 1 == 1).map(|i| pool[i]).collect();
            if vs.len() > k {
                continue;
            }
            sets.push((vs.clone(), total));
            total += dcount(vs.len());
        }
        Self { sets, total }
    }
    pub fn get(&self, idx: u64) -> Abs {
        let i = match self.sets.binary_search_by(|(_, off)| off.cmp(&idx)) {
            Ok(i) => i,
            Err(i) => i - 1,
        };
        let (vs, off) = &self.sets[i];
        Abs::from_mask_on(vs, idx - off)
    }
}

pub fn subset_of(mask: u64, n: usize) -> BTreeSet<usize> {
    (0..n).filter(|i| mask >> i & 1 == 1).collect()
}

pub fn subset_vec(mask: u64, n: usize) -> Vec<usize> {
    (0..n).filter(|i| mask >> i & 1 == 1).collect()
}

/// All ordered arrangements (permutations) of all subsets of `0..n`,
/// including the empty one.
pub fn arrangements(n: usize) -> Vec<Vec<usize>> {
    fn rec(n: usize, cur: &mut Vec<usize>, out: &mut Vec<Vec<usize>>) {
        out.push(cur.clone());
        for x in 0..n {
            if !cur.contains(&x) {
                cur.push(x);
                rec(n, cur, out);
                cur.pop();
            }
        }
    }
    let mut out = Vec::new();
    rec(n, &mut Vec::new(), &mut out);
    out
}

/// Arrangements with at most `k` elements.
pub fn arrangements_upto(n: usize, k: usize) -> Vec<Vec<usize>> {
    arrangements(n).into_iter().filter(|a| a.len() <= k).collect()
}

/// All sequences over `alphabet` of length `0..=maxlen`.
pub fn sequences(alphabet: &[usize], maxlen: usize) -> Vec<Vec<usize>> {
    let mut out = vec![vec![]];
    let mut layer = vec![vec![]];
    for _ in 0..maxlen {
        let mut next = Vec::new();
        for s in &layer {
            for &a in alphabet {
                let mut t: Vec<usize> = s.clone();
                t.push(a);
                next.push(t);
            }
        }
        out.extend(next.iter().cloned());
        layer = next;
    }
    out
}

pub fn par(k: usize) {
    let _ = set_parallelism(Parallelism::Fixed(k));
}
pub fn par_err() {
    let _ = set_parallelism(Parallelism::Unavailable);
}
pub fn par_system() {
    let _ = set_parallelism(Parallelism::System);
}

pub fn pow(b: u64, e: usize) -> u64 {
    b.pow(e as u32)
}
