//! The reference model: a mathematical digraph (V, A, w) as plain ordered
//! sets, and textbook definitions written over it with set operations only.
//! None of this code is derived from the algorithms under test.

use std::collections::{BTreeMap, BTreeSet};

pub type Arc2 = (usize, usize);

#[derive(Clone, Debug, Default, PartialEq, Eq, Hash, PartialOrd, Ord)]
pub struct Abs {
    pub v: BTreeSet<usize>,
    pub a: BTreeSet<Arc2>,
    /// weights; empty for unweighted digraphs
    pub w: BTreeMap<Arc2, i128>,
}

pub const INF: i128 = i128::MAX;

impl Abs {
    pub fn empty(n: usize) -> Self {
        Self { v: (0..n).collect(), ..Self::default() }
    }
    pub fn on(v: impl IntoIterator<Item = usize>) -> Self {
        Self { v: v.into_iter().collect(), ..Self::default() }
    }
    pub fn from_arcs(n: usize, arcs: impl IntoIterator<Item = Arc2>) -> Self {
        let mut s = Self::empty(n);
        for (u, v) in arcs {
            s.a.insert((u, v));
        }
        s
    }
    /// All ordered pairs of distinct vertices of `0..n`, lexicographic.
    pub fn pairs(n: usize) -> Vec<Arc2> {
        let mut p = Vec::with_capacity(n * n.saturating_sub(1));
        for u in 0..n {
            for v in 0..n {
                if u != v {
                    p.push((u, v));
                }
            }
        }
        p
    }
    /// The digraph on `0..n` whose arc set is the bitmask `mask` over `pairs(n)`.
    pub fn from_mask(n: usize, mask: u64) -> Self {
        let mut s = Self::empty(n);
        let mut i = 0;
        for u in 0..n {
            for v in 0..n {
                if u != v {
                    if mask >> i & 1 == 1 {
                        s.a.insert((u, v));
                    }
                    i += 1;
                }
            }
        }
        s
    }
    /// Arc set from a mask over all ordered pairs of the given vertex list.
    pub fn from_mask_on(vs: &[usize], mask: u64) -> Self {
        let mut s = Self::on(vs.iter().copied());
        let mut i = 0;
        for &u in vs {
            for &v in vs {
                if u != v {
                    if mask >> i & 1 == 1 {
                        s.a.insert((u, v));
                    }
                    i += 1;
                }
            }
        }
        s
    }
    /// Weighted digraph on `0..n`: digit `d` of `code` in base `alphabet.len()+1`
    /// for each ordered pair; digit 0 = no arc, digit k = weight alphabet[k-1].
    pub fn from_code(n: usize, mut code: u64, alphabet: &[i128]) -> Self {
        let b = alphabet.len() as u64 + 1;
        let mut s = Self::empty(n);
        for u in 0..n {
            for v in 0..n {
                if u != v {
                    let d = code % b;
                    code /= b;
                    if d > 0 {
                        s.a.insert((u, v));
                        s.w.insert((u, v), alphabet[d as usize - 1]);
                    }
                }
            }
        }
        s
    }
    pub fn n(&self) -> usize {
        self.v.len()
    }
    pub fn is_contiguous(&self) -> bool {
        self.v.iter().copied().eq(0..self.v.len())
    }
    pub fn has(&self, u: usize, v: usize) -> bool {
        self.a.contains(&(u, v))
    }
    pub fn out(&self, u: usize) -> Vec<usize> {
        self.a.range((u, 0)..=(u, usize::MAX)).map(|&(_, v)| v).collect()
    }
    pub fn inn(&self, v: usize) -> Vec<usize> {
        self.a.iter().filter(|&&(_, y)| y == v).map(|&(x, _)| x).collect()
    }
    pub fn outdeg(&self, u: usize) -> usize {
        self.a.range((u, 0)..=(u, usize::MAX)).count()
    }
    pub fn indeg(&self, v: usize) -> usize {
        self.a.iter().filter(|&&(_, y)| y == v).count()
    }
    pub fn weight(&self, u: usize, v: usize) -> i128 {
        if self.w.is_empty() {
            1
        } else {
            self.w.get(&(u, v)).copied().unwrap_or(1)
        }
    }
    /// inverse of `arcs_json`
    pub fn from_json(v: &serde_json::Value) -> Option<Self> {
        let mut a = Self::default();
        for x in v.get("V")?.as_array()? {
            a.v.insert(x.as_u64()? as usize);
        }
        for x in v.get("A")?.as_array()? {
            let s = x.as_str()?;
            let (arc, w) = match s.split_once(':') {
                Some((l, r)) => (l, Some(r.parse::<i128>().ok()?)),
                None => (s, None),
            };
            let (u, t) = arc.split_once("->")?;
            let k = (u.parse().ok()?, t.parse().ok()?);
            a.a.insert(k);
            if let Some(w) = w {
                a.w.insert(k, w);
            }
        }
        Some(a)
    }
    pub fn arcs_json(&self) -> serde_json::Value {
        if self.w.is_empty() {
            serde_json::json!({"V": self.v, "A": self.a.iter().map(|&(u, v)| format!("{u}->{v}")).collect::<Vec<_>>()})
        } else {
            serde_json::json!({"V": self.v, "A": self.a.iter().map(|&(u, v)| format!("{u}->{v}:{}", self.w[&(u, v)])).collect::<Vec<_>>()})
        }
    }

    // ---------------- set operators (C11)
    pub fn complement(&self) -> Self {
        let mut r = Self::on(self.v.iter().copied());
        for &u in &self.v {
            for &v in &self.v {
                if u != v && !self.has(u, v) {
                    r.a.insert((u, v));
                }
            }
        }
        r
    }
    pub fn converse(&self) -> Self {
        let mut r = Self::on(self.v.iter().copied());
        for &(u, v) in &self.a {
            r.a.insert((v, u));
            if let Some(w) = self.w.get(&(u, v)) {
                r.w.insert((v, u), *w);
            }
        }
        r
    }
    pub fn union(&self, o: &Self) -> Self {
        Self { v: self.v.union(&o.v).copied().collect(), a: self.a.union(&o.a).copied().collect(), w: BTreeMap::new() }
    }
    pub fn induced(&self, p: impl Fn(usize) -> bool) -> Self {
        Self {
            v: self.v.iter().copied().filter(|&x| p(x)).collect(),
            a: self.a.iter().copied().filter(|&(u, v)| p(u) && p(v)).collect(),
            w: self.w.iter().filter(|(&(u, v), _)| p(u) && p(v)).map(|(k, w)| (*k, *w)).collect(),
        }
    }

    // ---------------- predicates (C12)
    pub fn is_complete(&self) -> bool {
        self.v.iter().all(|&u| self.v.iter().all(|&v| u == v || self.has(u, v)))
    }
    pub fn is_semicomplete(&self) -> bool {
        self.v.iter().all(|&u| self.v.iter().all(|&v| u == v || self.has(u, v) || self.has(v, u)))
    }
    pub fn is_tournament(&self) -> bool {
        self.v.iter().all(|&u| self.v.iter().all(|&v| u == v || (self.has(u, v) != self.has(v, u))))
    }
    pub fn is_regular(&self) -> bool {
        let mut it = self.v.iter();
        let Some(&f) = it.next() else { return true };
        let k = self.outdeg(f);
        self.v.iter().all(|&u| self.outdeg(u) == k && self.indeg(u) == k)
    }
    pub fn is_balanced(&self) -> bool {
        self.v.iter().all(|&u| self.outdeg(u) == self.indeg(u))
    }
    pub fn is_symmetric(&self) -> bool {
        self.a.iter().all(|&(u, v)| self.has(v, u))
    }
    pub fn is_oriented(&self) -> bool {
        self.a.iter().all(|&(u, v)| !self.has(v, u))
    }
    pub fn is_subdigraph_of(&self, d: &Self) -> bool {
        self.v.is_subset(&d.v) && self.a.is_subset(&d.a)
    }

    // ---------------- reachability
    /// Hop levels from a set of sources by frontier iteration. `None` = unreachable.
    pub fn levels(&self, sources: &BTreeSet<usize>) -> BTreeMap<usize, usize> {
        let mut lvl: BTreeMap<usize, usize> = BTreeMap::new();
        let mut frontier: BTreeSet<usize> = sources.iter().copied().filter(|s| self.v.contains(s)).collect();
        let mut d = 0;
        while !frontier.is_empty() {
            for &x in &frontier {
                lvl.insert(x, d);
            }
            let mut next = BTreeSet::new();
            for &(u, v) in &self.a {
                if frontier.contains(&u) && !lvl.contains_key(&v) {
                    next.insert(v);
                }
            }
            frontier = next;
            d += 1;
        }
        lvl
    }
    pub fn reach(&self, sources: &BTreeSet<usize>) -> BTreeSet<usize> {
        self.levels(sources).into_keys().collect()
    }
    pub fn reach1(&self, s: usize) -> BTreeSet<usize> {
        self.reach(&BTreeSet::from([s]))
    }

    /// All elementary circuits, each as the vertex sequence starting at its
    /// smallest vertex, found by exhaustive simple-path extension.
    pub fn circuits(&self) -> Vec<Vec<usize>> {
        let mut res = Vec::new();
        for &s in &self.v {
            let mut path = vec![s];
            self.ext(s, &mut path, &mut res);
        }
        res
    }
    fn ext(&self, s: usize, path: &mut Vec<usize>, res: &mut Vec<Vec<usize>>) {
        let last = *path.last().unwrap();
        for w in self.out(last) {
            if w == s {
                if path.len() >= 2 {
                    res.push(path.clone());
                }
            } else if w > s && !path.contains(&w) {
                path.push(w);
                self.ext(s, path, res);
                path.pop();
            }
        }
    }
    pub fn circuit_weight(&self, c: &[usize]) -> i128 {
        let mut t = 0;
        for i in 0..c.len() {
            t += self.weight(c[i], c[(i + 1) % c.len()]);
        }
        t
    }
    /// Vertices lying on some negative-weight circuit.
    pub fn negative_circuit_vertices(&self) -> BTreeSet<usize> {
        let mut r = BTreeSet::new();
        for c in self.circuits() {
            if self.circuit_weight(&c) < 0 {
                r.extend(c);
            }
        }
        r
    }

    /// Minimum walk weight from any source (sources at 0). Requires that no
    /// negative circuit is reachable from the sources. |V|-1 rounds of
    /// relaxing every arc, in i128.
    pub fn dist(&self, sources: &BTreeSet<usize>) -> BTreeMap<usize, i128> {
        let mut d: BTreeMap<usize, i128> = BTreeMap::new();
        for &s in sources {
            if self.v.contains(&s) {
                d.insert(s, 0);
            }
        }
        for _ in 0..self.v.len() {
            let mut nd = d.clone();
            for &(u, v) in &self.a {
                if let Some(&du) = d.get(&u) {
                    let c = du + self.weight(u, v);
                    if nd.get(&v).map_or(true, |&x| c < x) {
                        nd.insert(v, c);
                    }
                }
            }
            if nd == d {
                break;
            }
            d = nd;
        }
        d
    }

    /// Strongly connected classes by mutual reachability.
    pub fn scc(&self) -> BTreeSet<BTreeSet<usize>> {
        let r: BTreeMap<usize, BTreeSet<usize>> = self.v.iter().map(|&v| (v, self.reach1(v))).collect();
        let mut out = BTreeSet::new();
        for &u in &self.v {
            let cls: BTreeSet<usize> = self.v.iter().copied().filter(|v| r[&u].contains(v) && r[v].contains(&u)).collect();
            out.insert(cls);
        }
        out
    }
}

/// Validator for a depth-first preorder as stated by C06. Feeds on the
/// sequence of yielded `(predecessor, vertex, depth)`; any field may be
/// absent. Accepts every valid depth-first preorder, whatever neighbour or
/// root order was chosen. Returns the first deviation.
pub struct DfsValidator<'a> {
    g: &'a Abs,
    sources: BTreeSet<usize>,
    yielded: BTreeSet<usize>,
    /// current search path, root first
    path: Vec<usize>,
    pub pos: usize,
}

impl<'a> DfsValidator<'a> {
    pub fn new(g: &'a Abs, sources: &BTreeSet<usize>) -> Self {
        Self { g, sources: sources.clone(), yielded: BTreeSet::new(), path: Vec::new(), pos: 0 }
    }
    fn has_unyielded_out(&self, u: usize) -> bool {
        self.g.out(u).iter().any(|x| !self.yielded.contains(x))
    }
    /// `pred`: `Some(p)` when the implementation reported predecessor `p`
    /// (`p` itself `None` for a root); `depth`: reported depth, if any.
    pub fn step(&mut self, v: usize, pred: Option<Option<usize>>, depth: Option<usize>) -> Result<(), String> {
        let pos = self.pos;
        self.pos += 1;
        if !self.g.v.contains(&v) {
            return Err(format!("item {pos}: vertex {v} is not in the digraph"));
        }
        if self.yielded.contains(&v) {
            return Err(format!("item {pos}: vertex {v} yielded twice"));
        }
        // pop the search path down to the deepest vertex with an unyielded out-neighbour
        while let Some(&top) = self.path.last() {
            if self.has_unyielded_out(top) {
                break;
            }
            self.path.pop();
        }
        match self.path.last().copied() {
            None => {
                if !self.sources.contains(&v) {
                    return Err(format!("item {pos}: vertex {v} yielded as a new root but it is not a source"));
                }
                if let Some(p) = pred {
                    if p.is_some() {
                        return Err(format!("item {pos}: root {v} reported predecessor {p:?}, expected None"));
                    }
                }
                if let Some(d) = depth {
                    if d != 0 {
                        return Err(format!("item {pos}: root {v} reported depth {d}, expected 0"));
                    }
                }
                self.path.push(v);
            }
            Some(top) => {
                if !self.g.has(top, v) {
                    return Err(format!(
                        "item {pos}: vertex {v} is not an out-neighbour of {top}, the deepest vertex on the search path {:?} that still has an unyielded out-neighbour",
                        self.path
                    ));
                }
                if let Some(p) = pred {
                    if p != Some(top) {
                        return Err(format!("item {pos}: vertex {v} reported predecessor {p:?}, expected Some({top})"));
                    }
                }
                if let Some(d) = depth {
                    if d != self.path.len() {
                        return Err(format!("item {pos}: vertex {v} reported depth {d}, expected {}", self.path.len()));
                    }
                }
                self.path.push(v);
            }
        }
        self.yielded.insert(v);
        Ok(())
    }
    /// After the last item: every vertex reachable from the sources must have been yielded.
    pub fn finish(&self) -> Result<(), String> {
        let want = self.g.reach(&self.sources);
        if self.yielded != want {
            let missing: Vec<_> = want.difference(&self.yielded).collect();
            let extra: Vec<_> = self.yielded.difference(&want).collect();
            return Err(format!("yielded set differs from the reachable set: missing {missing:?}, extra {extra:?}"));
        }
        Ok(())
    }
    pub fn yielded(&self) -> &BTreeSet<usize> {
        &self.yielded
    }
}

/// The behaviour of the *known-defective* DFS (finding D2): a lazy-stack
/// depth-first search that seeds the stack with the sources in the given
/// order, pushes unvisited out-neighbours in ascending order, and ends the
/// whole iteration the first time it pops an already-visited vertex.
/// Returns `(pred, vertex, depth)` items. Used only to classify a failing
/// case as exactly the recorded finding.
pub fn dfs_known_defect(g: &Abs, sources: &[usize]) -> Vec<(Option<usize>, usize, usize)> {
    let mut stack: Vec<(Option<usize>, usize, usize)> = sources.iter().map(|&s| (None, s, 0)).collect();
    let mut visited = BTreeSet::new();
    let mut out = Vec::new();
    while let Some((p, v, d)) = stack.pop() {
        if visited.contains(&v) {
            break;
        }
        visited.insert(v);
        for x in g.out(v) {
            if !visited.contains(&x) {
                stack.push((Some(v), x, d + 1));
            }
        }
        out.push((p, v, d));
    }
    out
}

/// Would a correct lazy-stack DFS pop an already-visited vertex while
/// unvisited entries remain? (non-triviality measure for C06)
pub fn dfs_has_stale_pop(g: &Abs, sources: &[usize]) -> bool {
    let mut stack: Vec<usize> = sources.to_vec();
    let mut visited = BTreeSet::new();
    while let Some(v) = stack.pop() {
        if visited.contains(&v) {
            if stack.iter().any(|x| !visited.contains(x)) {
                return true;
            }
            continue;
        }
        visited.insert(v);
        for x in g.out(v) {
            if !visited.contains(&x) {
                stack.push(x);
            }
        }
    }
    false
}

/// Does a lazy-deletion Dijkstra pop a superseded entry before the last
/// reachable vertex is settled? (non-triviality measure for C03/C05)
pub fn dijkstra_has_stale_pop(g: &Abs, sources: &BTreeSet<usize>) -> (bool, bool) {
    use std::cmp::Reverse;
    use std::collections::BinaryHeap;
    let mut dist: BTreeMap<usize, i128> = BTreeMap::new();
    let mut heap = BinaryHeap::new();
    for &s in sources {
        dist.insert(s, 0);
        heap.push((Reverse(0i128), s));
    }
    let total = g.reach(sources).len();
    let mut settled = 0;
    let mut any_stale = false;
    let mut stale_before_end = false;
    while let Some((Reverse(d), u)) = heap.pop() {
        if dist[&u] != d {
            any_stale = true;
            if settled < total {
                stale_before_end = true;
            }
            continue;
        }
        settled += 1;
        for v in g.out(u) {
            let c = d + g.weight(u, v);
            if dist.get(&v).map_or(true, |&x| c < x) {
                dist.insert(v, c);
                heap.push((Reverse(c), v));
            }
        }
    }
    (any_stale, stale_before_end)
}
