//! E-SCHED: exhaustive, preemption-bounded exploration of thread
//! interleavings of graaf's eight fork-join routines.
//!
//! Built only with `--features sched`: graaf's hooked `spawn`, `scope`,
//! `Mutex` and `AtomicBool` then resolve to shuttle's, every one of their
//! operations is a scheduling point, and the scheduler below decides which
//! task runs next. It is a stateless depth-first explorer with iterative
//! context bounding (Musuvathi & Qadeer): at each point the running task
//! first, then the others in ascending id; switching away from a task that
//! could still run costs one preemption; every schedule with at most `bound`
//! preemptions is run to completion.

use crate::core::guarded;
use crate::refm::Abs;
use crate::reps::*;
use graaf::verif_rt::{set_parallelism, Parallelism};
use graaf::*;
use serde_json::{json, Value};
use shuttle::scheduler::{Schedule, Scheduler, Task, TaskId};
use std::collections::BTreeMap;
use std::sync::{Arc, Mutex};

#[derive(Clone, Debug)]
struct Point {
    options: Vec<usize>,
    chosen: usize,
    pre_before: usize,
    cur_runnable: bool,
}

#[derive(Default, Debug)]
pub struct Shared {
    pub executions: u64,
    pub with_preemption: u64,
    pub max_points: usize,
    pub current: Vec<usize>,
    pub divergence: Option<String>,
}

pub struct BoundedDfs {
    bound: usize,
    stack: Vec<Point>,
    pos: usize,
    pre: usize,
    started: bool,
    shared: Arc<Mutex<Shared>>,
    cap: u64,
}

impl BoundedDfs {
    pub fn new(bound: usize, cap: u64, shared: Arc<Mutex<Shared>>) -> Self {
        Self { bound, stack: Vec::new(), pos: 0, pre: 0, started: false, shared, cap }
    }
    /// A fixed schedule: replay exactly `choices` (indices into the canonical option list).
    pub fn replay(choices: &[usize], shared: Arc<Mutex<Shared>>) -> Self {
        let stack = choices.iter().map(|&c| Point { options: Vec::new(), chosen: c, pre_before: 0, cur_runnable: false }).collect();
        Self { bound: usize::MAX, stack, pos: 0, pre: 0, started: false, shared, cap: 1 }
    }
}

impl Scheduler for BoundedDfs {
    fn new_execution(&mut self) -> Option<Schedule> {
        let mut sh = self.shared.lock().unwrap();
        if self.started {
            // account the execution that just ended
            if self.pre > 0 {
                sh.with_preemption += 1;
            }
            sh.max_points = sh.max_points.max(self.pos);
            if sh.executions >= self.cap || sh.divergence.is_some() {
                return None;
            }
            // backtrack to the deepest point with an untried alternative within the bound
            self.stack.truncate(self.pos);
            loop {
                let Some(mut p) = self.stack.pop() else { return None };
                let mut next = p.chosen + 1;
                let mut found = false;
                while next < p.options.len() {
                    let cost = p.pre_before + usize::from(p.cur_runnable);
                    if cost <= self.bound {
                        found = true;
                        break;
                    }
                    next += 1;
                }
                if found {
                    p.chosen = next;
                    self.stack.push(p);
                    break;
                }
            }
        }
        self.started = true;
        self.pos = 0;
        self.pre = 0;
        sh.executions += 1;
        sh.current.clear();
        Some(Schedule::new(0))
    }

    fn next_task(&mut self, runnable: &[&Task], current: Option<TaskId>, _is_yielding: bool) -> Option<TaskId> {
        let cur: Option<usize> = current.map(usize::from);
        let mut ids: Vec<usize> = runnable.iter().map(|t| usize::from(t.id())).collect();
        ids.sort_unstable();
        let cur_runnable = cur.is_some_and(|c| ids.contains(&c));
        let mut options = Vec::with_capacity(ids.len());
        if let (true, Some(c)) = (cur_runnable, cur) {
            options.push(c);
        }
        for i in ids {
            if !(cur_runnable && Some(i) == cur) {
                options.push(i);
            }
        }
        let pos = self.pos;
        self.pos += 1;
        let choice;
        if pos < self.stack.len() {
            let p = &mut self.stack[pos];
            if p.options.is_empty() {
                // pure replay mode: adopt the options seen now
                p.options = options.clone();
                p.pre_before = self.pre;
                p.cur_runnable = cur_runnable;
            } else if p.options != options {
                let mut sh = self.shared.lock().unwrap();
                sh.divergence = Some(format!("replay divergence at point {pos}: options {options:?}, recorded {:?}", p.options));
                return None;
            }
            if p.chosen >= p.options.len() {
                let mut sh = self.shared.lock().unwrap();
                sh.divergence = Some(format!("replay divergence at point {pos}: choice {} out of range {:?}", p.chosen, p.options));
                return None;
            }
            choice = p.chosen;
        } else {
            self.stack.push(Point { options: options.clone(), chosen: 0, pre_before: self.pre, cur_runnable });
            choice = 0;
        }
        if choice > 0 && cur_runnable {
            self.pre += 1;
        }
        self.shared.lock().unwrap().current.push(choice);
        Some(TaskId::from(options[choice]))
    }

    fn next_u64(&mut self) -> u64 {
        0
    }
}

/// The result of exploring one (routine, input, workers, bound).
pub struct Explored {
    pub schedules: u64,
    pub with_preemption: u64,
    pub max_points: usize,
    pub outcomes: BTreeMap<String, u64>,
    pub failures: Vec<(String, Vec<usize>)>,
    pub error: Option<String>,
}

fn config() -> shuttle::Config {
    let mut c = shuttle::Config::default();
    c.stack_size = 1 << 20;
    c.failure_persistence = shuttle::FailurePersistence::None;
    c.max_steps = shuttle::MaxSteps::FailAfter(200_000);
    c.silence_warnings = true;
    c
}

/// Heartbeat of the OS threads that run executions: (start of the current
/// execution, job rendering, shared scheduler state).
static SCHED_BEATS: Mutex<Vec<Option<(std::time::Instant, String, usize, Arc<Mutex<Shared>>)>>> = Mutex::new(Vec::new());
thread_local! {
    static SCHED_SLOT: std::cell::Cell<usize> = const { std::cell::Cell::new(usize::MAX) };
    static CUR_JOB: std::cell::RefCell<(String, usize)> = const { std::cell::RefCell::new((String::new(), 0)) };
}

fn sched_beat(shared: Option<&Arc<Mutex<Shared>>>) {
    let mut b = SCHED_BEATS.lock().unwrap();
    let mut i = SCHED_SLOT.with(std::cell::Cell::get);
    if i == usize::MAX {
        i = b.len();
        b.push(None);
        SCHED_SLOT.with(|c| c.set(i));
    }
    b[i] = shared.map(|s| {
        let (j, w) = CUR_JOB.with(|c| c.borrow().clone());
        (std::time::Instant::now(), j, w, s.clone())
    });
}

/// One execution that does not finish within `secs` is reported as a failure
/// of that job under that schedule, and the engine stops.
pub fn spawn_sched_watchdog(prop: String, tier: String, secs: u64) {
    let _ = std::thread::spawn(move || loop {
        std::thread::sleep(std::time::Duration::from_millis(500));
        let b = SCHED_BEATS.lock().unwrap();
        for (since, job, workers, shared) in b.iter().flatten() {
            if since.elapsed().as_secs() >= secs {
                let sch = shared.try_lock().map(|s| s.current.clone()).unwrap_or_default();
                let jobv: Value = serde_json::from_str(job).unwrap_or(Value::Null);
                let out = json!({"property": prop, "tier": tier, "jobs": 1, "schedules": 1, "schedules_with_preemption": 0, "per_routine": [], "errors": [],
                    "canary_lost_update": {"detected": true},
                    "failures": [{"what": format!("one execution did not finish within {secs} s under this schedule (non-termination or deadlock not seen by the runtime)"), "job": jobv, "workers": workers, "schedule": sch}]});
                println!("@@SCHED {out}");
                use std::io::Write;
                let _ = std::io::stdout().flush();
                std::process::exit(0);
            }
        }
    });
}

/// Runs `body` under every schedule with ≤ `bound` preemptions. `body`
/// returns `Ok(outcome)` (a canonical rendering of the result) or
/// `Err(violation)`.
pub fn explore<F>(bound: usize, workers: usize, cap: u64, body: F) -> Explored
where
    F: Fn() -> Result<String, String> + Send + Sync + 'static,
{
    let shared = Arc::new(Mutex::new(Shared::default()));
    let outcomes: Arc<Mutex<BTreeMap<String, u64>>> = Arc::new(Mutex::new(BTreeMap::new()));
    let failures: Arc<Mutex<Vec<(String, Vec<usize>)>>> = Arc::new(Mutex::new(Vec::new()));
    let sched = BoundedDfs::new(bound, cap, shared.clone());
    let (o2, f2, s2) = (outcomes.clone(), failures.clone(), shared.clone());
    let r = std::panic::catch_unwind(std::panic::AssertUnwindSafe(|| {
        shuttle::Runner::new(sched, config()).run(move || {
            let _ = set_parallelism(Parallelism::Fixed(workers));
            sched_beat(Some(&s2));
            match body() {
                Ok(o) => *o2.lock().unwrap().entry(o).or_insert(0) += 1,
                Err(e) => {
                    let cur = s2.lock().unwrap().current.clone();
                    let mut f = f2.lock().unwrap();
                    if f.len() < 4 {
                        f.push((e, cur));
                    }
                }
            }
        })
    }));
    sched_beat(None);
    let sh = shared.lock().unwrap();
    let mut error = sh.divergence.clone();
    if let Err(e) = r {
        let msg = e.downcast_ref::<String>().cloned().or_else(|| e.downcast_ref::<&str>().map(|s| (*s).to_string())).unwrap_or_else(|| "panic".into());
        // a panic that escaped an execution: deadlock, step limit, or a panic in a worker
        let mut f = failures.lock().unwrap();
        f.push((format!("execution aborted under this schedule: {msg}"), sh.current.clone()));
        let _ = &mut error;
    }
    let out = Explored { schedules: sh.executions, with_preemption: sh.with_preemption, max_points: sh.max_points, outcomes: outcomes.lock().unwrap().clone(), failures: failures.lock().unwrap().clone(), error };
    out
}

/// Replays one recorded schedule twice; returns the two outcomes.
pub fn replay_twice<F>(choices: &[usize], workers: usize, body: F) -> (Option<Result<String, String>>, Option<Result<String, String>>, bool)
where
    F: Fn() -> Result<String, String> + Send + Sync + Clone + 'static,
{
    let mut res = Vec::new();
    let mut diverged = false;
    for _ in 0..2 {
        let shared = Arc::new(Mutex::new(Shared::default()));
        let slot: Arc<Mutex<Option<Result<String, String>>>> = Arc::new(Mutex::new(None));
        let sched = BoundedDfs::replay(choices, shared.clone());
        let (b, s2) = (body.clone(), slot.clone());
        let _ = std::panic::catch_unwind(std::panic::AssertUnwindSafe(|| {
            shuttle::Runner::new(sched, config()).run(move || {
                let _ = set_parallelism(Parallelism::Fixed(workers));
                *s2.lock().unwrap() = Some(b());
            })
        }));
        let sh = shared.lock().unwrap();
        // the recorded schedule does not fit this program (different scheduling points):
        // either reported by the scheduler or visible as unused / missing choices
        if sh.divergence.is_some() || sh.current.len() != choices.len() {
            diverged = true;
        }
        res.push(slot.lock().unwrap().clone());
    }
    (res[0].clone(), res[1].clone(), diverged)
}

// ---------------------------------------------------------------------------
// Routines

fn render<R: Rep>(d: &R) -> String {
    match observe(d) {
        Ok(o) => format!("V={:?} A={:?}", o.v, o.a),
        Err(e) => format!("INVALID: {e}"),
    }
}

fn expect_abs<R: Rep>(d: &R, want: &Abs, what: &str) -> Result<String, String> {
    match observe(d) {
        Ok(o) if same::<R>(&o, want) => Ok(render(d)),
        Ok(o) => Err(format!("{what} returned {} under this schedule; the definition gives {}", o.arcs_json(), want.arcs_json())),
        Err(e) => Err(format!("{what} returned an invalid digraph under this schedule: {e}")),
    }
}

#[derive(Clone, Debug)]
pub enum Job {
    AlComplement(Abs),
    AlComplete(usize),
    AlDegreeSequence(Abs),
    AlIsSemicomplete(Abs),
    AlUnion(Abs, Abs),
    AmUnion(Abs, Abs),
    AmRandomTournament(usize, u64),
    AmErdosRenyi(usize, f64, u64),
    /// deliberately wrong in-harness routine: read-modify-write without holding the lock
    CanaryLostUpdate,
}

impl Job {
    pub fn name(&self) -> &'static str {
        match self {
            Job::AlComplement(_) => "AdjacencyList::complement",
            Job::AlComplete(_) => "AdjacencyList::complete",
            Job::AlDegreeSequence(_) => "AdjacencyList::degree_sequence",
            Job::AlIsSemicomplete(_) => "AdjacencyList::is_semicomplete",
            Job::AlUnion(..) => "AdjacencyList::union",
            Job::AmUnion(..) => "AdjacencyMap::union",
            Job::AmRandomTournament(..) => "AdjacencyMap::random_tournament",
            Job::AmErdosRenyi(..) => "AdjacencyMap::erdos_renyi",
            Job::CanaryLostUpdate => "canary: lost update",
        }
    }
    pub fn json(&self) -> Value {
        match self {
            Job::AlComplement(a) | Job::AlDegreeSequence(a) | Job::AlIsSemicomplete(a) => json!({"routine": self.name(), "digraph": a.arcs_json()}),
            Job::AlComplete(n) => json!({"routine": self.name(), "order": n}),
            Job::AlUnion(a, b) | Job::AmUnion(a, b) => json!({"routine": self.name(), "lhs": a.arcs_json(), "rhs": b.arcs_json()}),
            Job::AmRandomTournament(n, s) => json!({"routine": self.name(), "order": n, "seed": s}),
            Job::AmErdosRenyi(n, p, s) => json!({"routine": self.name(), "order": n, "p": p, "seed": s}),
            Job::CanaryLostUpdate => json!({"routine": self.name()}),
        }
    }
    /// Deterministic routines are judged against the reference; the seeded
    /// generators for validity (and, across schedules, for a single outcome).
    pub fn run(&self) -> Result<String, String> {
        let r = guarded(|| match self {
            Job::AlComplement(a) => {
                let d = mk::<AL>(a);
                expect_abs(&d.complement(), &a.complement(), "AdjacencyList::complement")
            }
            Job::AlComplete(n) => expect_abs(&AL::complete(*n), &crate::props::gens::closed_form("complete", *n), "AdjacencyList::complete"),
            Job::AlDegreeSequence(a) => {
                let d = mk::<AL>(a);
                let got: Vec<usize> = d.degree_sequence().collect();
                let want: Vec<usize> = (0..a.n()).map(|v| a.indeg(v) + a.outdeg(v)).collect();
                if got == want {
                    Ok(format!("{got:?}"))
                } else {
                    Err(format!("AdjacencyList::degree_sequence returned {got:?} under this schedule; degrees are {want:?}"))
                }
            }
            Job::AlIsSemicomplete(a) => {
                let d = mk::<AL>(a);
                let got = d.is_semicomplete();
                if got == a.is_semicomplete() {
                    Ok(format!("{got}"))
                } else {
                    Err(format!("AdjacencyList::is_semicomplete returned {got} under this schedule; the definition gives {}", a.is_semicomplete()))
                }
            }
            Job::AlUnion(a, b) => {
                let (da, db) = (mk::<AL>(a), mk::<AL>(b));
                expect_abs(&da.union(&db), &a.union(b), "AdjacencyList::union")
            }
            Job::AmUnion(a, b) => {
                let (da, db) = (mk_am(a), mk_am(b));
                expect_abs(&da.union(&db), &a.union(b), "AdjacencyMap::union")
            }
            Job::AmRandomTournament(n, seed) => {
                let d = AM::random_tournament(*n, *seed);
                let o = observe(&d).map_err(|e| format!("AdjacencyMap::random_tournament returned an invalid digraph under this schedule: {e}"))?;
                for u in 0..*n {
                    for v in (u + 1)..*n {
                        if o.has(u, v) == o.has(v, u) {
                            return Err(format!("AdjacencyMap::random_tournament({n}, {seed}) is not a tournament under this schedule: pair {{{u},{v}}}; arcs {:?}", o.a));
                        }
                    }
                }
                if o.v != (0..*n).collect() {
                    return Err(format!("AdjacencyMap::random_tournament({n}, {seed}) has vertex set {:?}", o.v));
                }
                Ok(render(&d))
            }
            Job::AmErdosRenyi(n, p, seed) => {
                let d = AM::erdos_renyi(*n, *p, *seed);
                let o = observe(&d).map_err(|e| format!("AdjacencyMap::erdos_renyi returned an invalid digraph under this schedule: {e}"))?;
                if o.v != (0..*n).collect() {
                    return Err(format!("AdjacencyMap::erdos_renyi({n}, {p}, {seed}) has vertex set {:?}", o.v));
                }
                Ok(render(&d))
            }
            Job::CanaryLostUpdate => {
                use shuttle::sync::Mutex as SMutex;
                let cell = Arc::new(SMutex::new(0u32));
                let hs: Vec<_> = (0..2)
                    .map(|_| {
                        let c = cell.clone();
                        shuttle::thread::spawn(move || {
                            let v = *c.lock().unwrap();
                            *c.lock().unwrap() = v + 1;
                        })
                    })
                    .collect();
                for h in hs {
                    let _ = h.join();
                }
                let v = *cell.lock().unwrap();
                Ok(format!("{v}"))
            }
        });
        match r {
            Ok(x) => x,
            Err(e) => Err(format!("{} panicked under this schedule: {e}", self.name())),
        }
    }
}

pub struct JobResult {
    pub job: Job,
    pub workers: usize,
    pub bound: usize,
    pub ex: Explored,
}

/// Explores a list of jobs on `threads` OS threads (each with its own shuttle
/// runner), for each bound 0..=maxbound (iterative context bounding).
pub fn run_jobs(jobs: Vec<(Job, usize)>, maxbound: usize, cap: u64, threads: usize) -> Vec<JobResult> {
    let jobs = Arc::new(jobs);
    let next = Arc::new(std::sync::atomic::AtomicUsize::new(0));
    let results: Arc<Mutex<Vec<JobResult>>> = Arc::new(Mutex::new(Vec::new()));
    let mut hs = Vec::new();
    for _ in 0..threads.max(1) {
        let (jobs, next, results) = (jobs.clone(), next.clone(), results.clone());
        hs.push(std::thread::Builder::new().stack_size(32 << 20).spawn(move || loop {
            let i = next.fetch_add(1, std::sync::atomic::Ordering::Relaxed);
            if i >= jobs.len() {
                break;
            }
            let (job, workers) = jobs[i].clone();
            CUR_JOB.with(|c| *c.borrow_mut() = (job.json().to_string(), workers));
            let j2 = job.clone();
            // the deepest bound subsumes the smaller ones; count them separately only for reporting
            let ex = explore(maxbound, workers, cap, move || j2.run());
            results.lock().unwrap().push(JobResult { job, workers, bound: maxbound, ex });
        }).unwrap());
    }
    for h in hs {
        let _ = h.join();
    }
    Arc::try_unwrap(results).ok().unwrap().into_inner().unwrap()
}

fn jobs_for(prop: &str, tier: &str) -> (Vec<(Job, usize)>, usize) {
    let thorough = tier == "thorough";
    let maxbound = 3;
    let worker_counts: Vec<usize> = if thorough { vec![2, 3, 4] } else { vec![2, 3] };
    let mut jobs: Vec<(Job, usize)> = Vec::new();
    let d3: Vec<Abs> = (0..64).map(|m| Abs::from_mask(3, m)).collect();
    let some4: Vec<Abs> = {
        // order-4 inputs: every digraph of the families used across the checks plus every
        // digraph with ≥ 10 arcs (dense: is_semicomplete's pair loop runs long) — 79 + 8
        let mut v: Vec<Abs> = (0..4096u64).filter(|m| m.count_ones() >= 10).map(|m| Abs::from_mask(4, m)).collect();
        for name in ["empty", "circuit", "cycle", "path", "star", "wheel"] {
            v.push(crate::props::gens::closed_form(name, 4));
        }
        v
    };
    for &w in &worker_counts {
        match prop {
            "C12" => {
                for a in &d3 {
                    jobs.push((Job::AlIsSemicomplete(a.clone()), w));
                }
                let sel: Vec<Abs> = (0..4096u64).filter(|m| m.count_ones() >= 6).map(|m| Abs::from_mask(4, m)).collect();
                for a in sel {
                    jobs.push((Job::AlIsSemicomplete(a), w));
                }
                if thorough {
                    // order 5: complete minus both arcs of every pair, minus one arc of every pair, and the 1024 tournaments' complements are too many: the near-miss families
                    for a in 0..5usize {
                        for b in (a + 1)..5 {
                            for kind in 0..4 {
                                jobs.push((Job::AlIsSemicomplete(crate::props::ops::near_complete(5, kind, a, b).1), w));
                            }
                        }
                    }
                }
            }
            "C15" => {
                for n in 3..=(if thorough { 6 } else { 5 }) {
                    for seed in [0u64, 1, u64::MAX] {
                        jobs.push((Job::AmRandomTournament(n, seed), w));
                        jobs.push((Job::AmErdosRenyi(n, 0.3, seed), w));
                        jobs.push((Job::AmErdosRenyi(n, 0.8, seed), w));
                    }
                }
            }
            _ => {
                // C17: all eight routines
                for a in d3.iter().step_by(1) {
                    jobs.push((Job::AlComplement(a.clone()), w));
                    jobs.push((Job::AlDegreeSequence(a.clone()), w));
                    jobs.push((Job::AlIsSemicomplete(a.clone()), w));
                }
                for a in some4.iter().step_by(if thorough { 1 } else { 2 }) {
                    jobs.push((Job::AlComplement(a.clone()), w));
                    jobs.push((Job::AlDegreeSequence(a.clone()), w));
                    jobs.push((Job::AlIsSemicomplete(a.clone()), w));
                }
                for n in 2..=5 {
                    jobs.push((Job::AlComplete(n), w));
                }
                let pick: Vec<&Abs> = d3.iter().step_by(7).collect();
                for a in &pick {
                    for b in &pick {
                        jobs.push((Job::AlUnion((*a).clone(), (*b).clone()), w));
                        jobs.push((Job::AmUnion((*a).clone(), (*b).clone()), w));
                    }
                }
                // AdjacencyMap::union with overlapping non-contiguous key sets
                let sp = crate::spacesx::SparseSpace::new(&[0, 1, 4], 3);
                for i in (0..sp.total).step_by(if thorough { 3 } else { 11 }) {
                    for j in (0..sp.total).step_by(if thorough { 5 } else { 13 }) {
                        jobs.push((Job::AmUnion(sp.get(i), sp.get(j)), w));
                    }
                }
                jobs.push((Job::AlUnion(crate::props::gens::closed_form("cycle", 4), crate::props::gens::closed_form("star", 3)), w));
                // larger orders for the routines whose workers only meet at spawn / join (few
                // scheduling points whatever the order): several rows or blocks of rows per
                // worker, ragged last chunk, order below / above multiples of 8 and 16
                for n in [9usize, 17, 20, 33] {
                    let p = crate::props::gens::closed_form("path", n);
                    let c = crate::props::gens::closed_form("cycle", n);
                    let st = crate::props::gens::closed_form("star", n - 2);
                    jobs.push((Job::AlUnion(p.clone(), c.clone()), w));
                    jobs.push((Job::AlUnion(st, p.clone()), w));
                    jobs.push((Job::AlComplement(c), w));
                    jobs.push((Job::AlDegreeSequence(p), w));
                    jobs.push((Job::AlComplete(n), w));
                }
                for seed in [0u64, 7] {
                    jobs.push((Job::AmRandomTournament(4, seed), w));
                    jobs.push((Job::AmErdosRenyi(4, 0.3, seed), w));
                    jobs.push((Job::AmErdosRenyi(3, 0.8, seed), w));
                }
            }
        }
    }
    (jobs, maxbound)
}

/// `gv sched <prop> <tier>`: prints one JSON document on stdout.
pub fn main_sched(prop: &str, tier: &str) -> i32 {
    crate::core::silence_panics();
    spawn_sched_watchdog(prop.to_string(), tier.to_string(), 60);
    let threads = std::thread::available_parallelism().map_or(8, |n| n.get());
    // canary first: the explorer must see both outcomes of a lost update at bound 1
    let canary = explore(1, 2, 100_000, || Job::CanaryLostUpdate.run());
    let canary_ok = canary.outcomes.len() >= 2;
    let canary0 = explore(0, 2, 100_000, || Job::CanaryLostUpdate.run());
    let (jobs, maxbound) = jobs_for(prop, tier);
    let njobs = jobs.len();
    let cap = if tier == "thorough" { 5_000_000 } else { 500_000 };
    let t0 = std::time::Instant::now();
    let results = run_jobs(jobs, maxbound, cap, threads);
    let mut per_routine: BTreeMap<String, (u64, u64, u64, u64, usize)> = BTreeMap::new(); // jobs, schedules, with_preemption, multi-outcome jobs, max points
    let mut fails: Vec<Value> = Vec::new();
    let mut errors: Vec<String> = Vec::new();
    let mut capped = 0u64;
    let mut sample: Option<Value> = None;
    for r in &results {
        let e = per_routine.entry(format!("{} ({} workers, ≤{} preemptions)", r.job.name(), r.workers, r.bound)).or_insert((0, 0, 0, 0, 0));
        e.0 += 1;
        e.1 += r.ex.schedules;
        e.2 += r.ex.with_preemption;
        e.4 = e.4.max(r.ex.max_points);
        if r.ex.schedules >= cap {
            capped += 1;
        }
        if r.ex.outcomes.len() > 1 {
            e.3 += 1;
            fails.push(json!({"what": format!("{} gave {} distinct results across schedules (must be 1)", r.job.name(), r.ex.outcomes.len()), "job": r.job.json(), "workers": r.workers, "outcomes": r.ex.outcomes}));
        }
        for (msg, sch) in &r.ex.failures {
            fails.push(json!({"what": msg, "job": r.job.json(), "workers": r.workers, "schedule": sch}));
        }
        if let Some(err) = &r.ex.error {
            errors.push(err.clone());
        }
        if sample.is_none() && r.ex.with_preemption > 0 {
            sample = Some(json!({"job": r.job.json(), "workers": r.workers, "schedules": r.ex.schedules, "with_preemption": r.ex.with_preemption, "scheduling_points": r.ex.max_points}));
        }
    }
    fails.truncate(8);
    let schedules: u64 = results.iter().map(|r| r.ex.schedules).sum();
    let with_pre: u64 = results.iter().map(|r| r.ex.with_preemption).sum();
    let out = json!({
        "property": prop, "tier": tier,
        "jobs": njobs, "schedules": schedules, "schedules_with_preemption": with_pre,
        "max_preemptions": maxbound, "capped_jobs": capped, "cap": cap,
        "per_routine": per_routine.iter().map(|(k, v)| json!({"routine": k, "inputs": v.0, "schedules": v.1, "schedules_with_preemption": v.2, "inputs_with_more_than_one_outcome": v.3, "max_scheduling_points": v.4})).collect::<Vec<_>>(),
        "canary_lost_update": {"bound0_outcomes": canary0.outcomes, "bound1_outcomes": canary.outcomes, "bound1_schedules": canary.schedules, "detected": canary_ok},
        "failures": fails, "errors": errors, "sample": sample,
        "wall_s": t0.elapsed().as_secs_f64(),
    });
    println!("@@SCHED {out}");
    if !canary_ok || !errors.is_empty() {
        return 2;
    }
    0
}

impl Job {
    pub fn from_json(v: &Value) -> Option<Job> {
        let r = v.get("routine")?.as_str()?;
        let abs = |k: &str| v.get(k).and_then(Abs::from_json);
        Some(match r {
            "AdjacencyList::complement" => Job::AlComplement(abs("digraph")?),
            "AdjacencyList::degree_sequence" => Job::AlDegreeSequence(abs("digraph")?),
            "AdjacencyList::is_semicomplete" => Job::AlIsSemicomplete(abs("digraph")?),
            "AdjacencyList::complete" => Job::AlComplete(v.get("order")?.as_u64()? as usize),
            "AdjacencyList::union" => Job::AlUnion(abs("lhs")?, abs("rhs")?),
            "AdjacencyMap::union" => Job::AmUnion(abs("lhs")?, abs("rhs")?),
            "AdjacencyMap::random_tournament" => Job::AmRandomTournament(v.get("order")?.as_u64()? as usize, v.get("seed")?.as_u64()?),
            "AdjacencyMap::erdos_renyi" => Job::AmErdosRenyi(v.get("order")?.as_u64()? as usize, v.get("p")?.as_f64()?, v.get("seed")?.as_u64()?),
            _ => return None,
        })
    }
}

/// Re-runs one recorded failing schedule twice without the explorer; the
/// two runs must agree (else: machinery error).
pub fn replay_failure(file: &Value) -> i32 {
    crate::core::silence_panics();
    let d = file.get("detail").unwrap_or(file);
    let Some(job) = d.get("job").and_then(Job::from_json) else {
        eprintln!("gv: replay file names no schedulable job");
        return 2;
    };
    let workers = d.get("workers").and_then(Value::as_u64).unwrap_or(2) as usize;
    match d.get("schedule").and_then(Value::as_array) {
        Some(s) => {
            let choices: Vec<usize> = s.iter().filter_map(|x| x.as_u64().map(|x| x as usize)).collect();
            let j2 = job.clone();
            let (a, b, diverged) = replay_twice(&choices, workers, move || j2.run());
            if diverged {
                // the code changed since the schedule was recorded: explore the job again instead
                let j3 = job.clone();
                let ex = explore(3, workers, 500_000, move || j3.run());
                println!("the recorded schedule does not fit the current code (its scheduling points differ); re-explored {} instead: {} schedules, {} outcome(s), {} failure(s)", job.name(), ex.schedules, ex.outcomes.len(), ex.failures.len());
                for (m, sch) in &ex.failures {
                    println!("  {m}\n  schedule {sch:?}");
                }
                return i32::from(ex.outcomes.len() > 1 || !ex.failures.is_empty());
            }
            println!("replay of {} with {workers} workers under schedule {choices:?}:\n  run 1: {a:?}\n  run 2: {b:?}", job.name());
            if a != b {
                eprintln!("gv: the two replays of one schedule disagree (uncontrolled nondeterminism): machinery error");
                return 2;
            }
            match a {
                Some(Err(_)) | None => 1,
                Some(Ok(_)) => 0,
            }
        }
        None => {
            // "more than one outcome": explore again and report
            let j2 = job.clone();
            let ex = explore(2, workers, 200_000, move || j2.run());
            println!("re-exploration of {}: {} schedules, outcomes {:?}, failures {:?}", job.name(), ex.schedules, ex.outcomes, ex.failures);
            if ex.outcomes.len() > 1 || !ex.failures.is_empty() {
                1
            } else {
                0
            }
        }
    }
}
