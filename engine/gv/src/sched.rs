pub fn nothing(){}
